// C15 (component part) — AEAD limits and key updates on two real `KeySet<K>` joined by a bag of
// in-flight packets.
//
// K is a harness key (`HKey`): its "AEAD tag" is 8 clear bytes (marker, key generation, packet
// number), so `decrypt` succeeds exactly when the opening key has the generation of the sealing
// key and the packet was sealed by an endpoint (marker "KG"; forgeries carry "XX"). Everything
// else is the real code: packets are built with `KeySet::encrypt_packet` +
// `Short::encode_packet` (=> `crypto::encrypt`/`protect`) and opened with
// `ProtectedPacket::decode` + `unprotect` + `KeySet::decrypt_packet`, with the arguments
// s2n-quic-transport/src/space/application.rs passes (largest acknowledged packet number,
// `now + PTO` as the old-key retention deadline, `on_timeout(now)`).
//
// Limits handed to the KeySet: confidentiality 4 (3 in the second configuration), key update
// window 2, integrity 3.
//
// Reference model per endpoint (RFC 9001 §6, nothing from keyset.rs): receive generation `c`
// (advanced only by a genuine packet of generation c+1), the set of receive keys held
// ({c, c+1}, or {c-1, c} from the promotion of c until `on_timeout` runs at/after the deadline
// given on the promoting call - §6.3/§6.5), packets sealed per generation, failed
// authentications, and what has been acknowledged.
//
// Driver preconditions (RFC 9001 §6.1/§6.5 bind the endpoint that *initiates* an update; KeySet
// has no input for them - it starts an update purely from its packet count - so the driver does
// not ask an endpoint to send when that send would have to initiate an update the RFC forbids):
//   strict (family `keyset`): initiating needs (a) an acknowledgement for a packet sealed with
//     the current generation unless it is the first update (§6.1 MUST) and (b) the next receive
//     keys to exist, i.e. the old-key retention period of the previous update is over (§6.5).
//   eager (`keyset_eager`, informational, not in FAMILIES): only (a).
//
// Alphabet: Send(A|B), Deliver(i) (any packet of the bag, <= 3 in flight), Tick(PTO), Timeout(A|B)
// (`on_timeout(now)`), Drop(i), Forge{to, current|other phase bit}.  Depth 10 quick / 14 thorough,
// two configurations (confidentiality limit 4 and 3).  KeySet has no Debug/Clone: states are
// rebuilt by replay and de-duplicated on the reference model plus everything observable of the
// real object (key_phase, key_update_in_progress, active key's counter, and per key generation:
// alive?, #sealed, #opened, #rejected as recorded by the harness keys themselves).
use crate::mccore::*;
use core::time::Duration;
use s2n_codec::{DecoderBufferMut, Encoder, EncoderBuffer};
use s2n_quic_core::{
    connection::{self, id::ConnectionInfo, ProcessingError},
    crypto::{
        application::{limited::Limits, KeySet},
        packet_protection, scatter,
        testing::HeaderKey,
        tls::CipherSuite,
        Key, OneRttKey,
    },
    inet::SocketAddress,
    packet::{
        encoding::{PacketEncoder, PacketEncodingError},
        number::{PacketNumber, PacketNumberSpace},
        short::{Short, SpinBit},
        KeyPhase, ProtectedPacket,
    },
    time::{Clock, NoopClock, Timestamp},
    transport,
    varint::VarInt,
};
use std::collections::BTreeMap;
use std::sync::{Arc, Mutex};

const WINDOW: u64 = 2;
/// key_update_window of a configuration: 2, except for the configuration with confidentiality limit 2,
/// where it is 3 - a window larger than the limit itself ("all limit/window settings": the update
/// threshold then saturates at 0 and an update must be started right away)
fn window_for(confidentiality: u64) -> u64 {
    if confidentiality == 2 {
        3
    } else {
        WINDOW
    }
}
const INTEGRITY: u64 = 3;
const PTO: Duration = Duration::from_millis(100);
const TAG_LEN: usize = 8;
const DCID: [u8; 8] = [0xd0, 0xd1, 0xd2, 0xd3, 0xd4, 0xd5, 0xd6, 0xd7];
const BAG_MAX: usize = 3;

fn payload_bytes() -> Vec<u8> {
    // a PING followed by PADDING would do; the content is opaque to the key set
    prf_vec(0xC15, 0, 64)
}

// ------------------------------------------------------------------------------------------
// harness key
// ------------------------------------------------------------------------------------------

#[derive(Clone, Debug, Default, PartialEq, Eq, Hash)]
struct KeyStats {
    live: i32,
    sealed: u64,
    opened: u64,
    rejected: u64,
}

type Registry = Arc<Mutex<BTreeMap<u16, KeyStats>>>;

pub struct HKey {
    generation: u16,
    authentic: bool,
    confidentiality: u64,
    reg: Registry,
}

impl HKey {
    fn root(confidentiality: u64, authentic: bool) -> (HKey, Registry) {
        let reg: Registry = Default::default();
        reg.lock().unwrap().entry(0).or_default().live += 1;
        (HKey { generation: 0, authentic, confidentiality, reg: reg.clone() }, reg)
    }
    fn tag(&self, pn: u64) -> [u8; TAG_LEN] {
        let mut t = [0u8; TAG_LEN];
        t[..2].copy_from_slice(if self.authentic { b"KG" } else { b"XX" });
        t[2..4].copy_from_slice(&self.generation.to_be_bytes());
        t[4..].copy_from_slice(&(pn as u32).to_be_bytes());
        t
    }
}

impl Drop for HKey {
    fn drop(&mut self) {
        if let Ok(mut g) = self.reg.lock() {
            g.entry(self.generation).or_default().live -= 1;
        }
    }
}

impl Key for HKey {
    fn decrypt(&self, packet_number: u64, _header: &[u8], payload: &mut [u8]) -> Result<(), packet_protection::Error> {
        let ok = payload.len() >= TAG_LEN && self.authentic && payload[payload.len() - TAG_LEN..] == self.tag(packet_number);
        let mut g = self.reg.lock().unwrap();
        let s = g.entry(self.generation).or_default();
        if ok {
            s.opened += 1;
            Ok(())
        } else {
            s.rejected += 1;
            Err(packet_protection::Error::DECRYPT_ERROR)
        }
    }

    fn encrypt(&mut self, packet_number: u64, _header: &[u8], payload: &mut scatter::Buffer) -> Result<(), packet_protection::Error> {
        let tag = self.tag(packet_number);
        let buffer = payload.flatten();
        buffer.write_slice(&tag);
        self.reg.lock().unwrap().entry(self.generation).or_default().sealed += 1;
        Ok(())
    }

    fn tag_len(&self) -> usize {
        TAG_LEN
    }

    fn aead_confidentiality_limit(&self) -> u64 {
        self.confidentiality
    }

    fn aead_integrity_limit(&self) -> u64 {
        INTEGRITY
    }

    fn cipher_suite(&self) -> CipherSuite {
        CipherSuite::Unknown
    }
}

impl OneRttKey for HKey {
    fn derive_next_key(&self) -> Self {
        let generation = self.generation + 1;
        self.reg.lock().unwrap().entry(generation).or_default().live += 1;
        HKey { generation, authentic: self.authentic, confidentiality: self.confidentiality, reg: self.reg.clone() }
    }
}

fn pn(v: u64) -> PacketNumber {
    PacketNumberSpace::ApplicationData.new_packet_number(VarInt::new(v).unwrap())
}

fn phase_of(generation: u16) -> KeyPhase {
    //= RFC 9001 §6: "The Key Phase bit is initially set to 0 for the first set of 1-RTT packets
    //= and toggled to signal each subsequent key update."
    if generation % 2 == 0 {
        KeyPhase::Zero
    } else {
        KeyPhase::One
    }
}

/// (marker ok, generation, pn) of a sealed packet as it appears on the wire
fn wire_tag(bytes: &[u8]) -> (bool, u16, u32) {
    let t = &bytes[bytes.len() - TAG_LEN..];
    (&t[..2] == b"KG", u16::from_be_bytes([t[2], t[3]]), u32::from_be_bytes([t[4], t[5], t[6], t[7]]))
}

// ------------------------------------------------------------------------------------------
// system
// ------------------------------------------------------------------------------------------

#[derive(Clone, Copy, Debug, PartialEq, Eq, Hash)]
pub enum Side {
    A,
    B,
}

impl Side {
    fn idx(self) -> usize {
        match self {
            Side::A => 0,
            Side::B => 1,
        }
    }
    fn peer(self) -> Side {
        match self {
            Side::A => Side::B,
            Side::B => Side::A,
        }
    }
}

#[derive(Clone, Debug, PartialEq)]
pub enum Op {
    Send(Side),
    Deliver(usize),
    Tick,
    Timeout(Side),
    Drop(usize),
    /// a packet that fails authentication, carrying the receiver's current (false) or the other
    /// (true) key phase bit
    Forge { to: Side, other_phase: bool },
}

#[derive(Clone, Debug, Hash)]
struct Pkt {
    to: Side,
    pn: u64,
    generation: u16,
    /// highest generation of the destination's packets the sender had accepted when it sent this
    /// packet (the acknowledgement information it carries)
    ack_generation: Option<u16>,
    bytes: Vec<u8>,
}

struct End {
    ks: KeySet<HKey>,
    reg: Registry,
    next_pn: u64,
    largest_recv: u64,
    largest_acked: u64,
    closed: bool,
    refused: bool,
    // ---- reference model ----
    c: u16,
    retire_at: Option<Timestamp>,
    has_next: bool,
    sealed: BTreeMap<u16, u64>,
    last_sent: Option<u16>,
    failures: u64,
    peer_seen: Option<u16>,
    confirmed: Option<u16>,
    rotations_reported: Option<u16>,
}

impl End {
    fn new(confidentiality: u64) -> End {
        let (key, reg) = HKey::root(confidentiality, true);
        let mut limits = Limits::default();
        limits.key_update_window = window_for(confidentiality);
        End {
            ks: KeySet::new(key, limits),
            reg,
            next_pn: 0,
            largest_recv: 0,
            largest_acked: 0,
            closed: false,
            refused: false,
            c: 0,
            retire_at: None,
            has_next: true,
            sealed: BTreeMap::new(),
            last_sent: None,
            failures: 0,
            peer_seen: None,
            confirmed: None,
            rotations_reported: None,
        }
    }
    fn sealed_with(&self, g: u16) -> u64 {
        self.sealed.get(&g).copied().unwrap_or(0)
    }
    /// newest generation this endpoint seals with
    fn send_generation(&self) -> u16 {
        self.c.max(self.last_sent.unwrap_or(0))
    }
}

pub struct Net {
    ends: [End; 2],
    bag: Vec<Pkt>,
    now: Timestamp,
    eager: bool,
    confidentiality: u64,
    forger: HKey,
}

impl Net {
    pub fn new(confidentiality: u64, eager: bool) -> Net {
        let (mut forger, _) = HKey::root(u64::MAX, false);
        forger.generation = 0x7fff;
        Net { ends: [End::new(confidentiality), End::new(confidentiality)], bag: Vec::new(), now: NoopClock.get_time(), eager, confidentiality, forger }
    }

    fn may_send(&self, x: Side) -> bool {
        let e = &self.ends[x.idx()];
        if e.closed || self.bag.len() >= BAG_MAX {
            return false;
        }
        let s = e.send_generation();
        if s > e.c {
            // an update initiated by x is under way; x keeps using generation s
            return true;
        }
        // The configuration handed to KeySet: an update is started once the current key has sealed
        // more than (confidentiality limit - key_update_window) packets.
        let must_initiate = e.sealed_with(e.c) > self.confidentiality.saturating_sub(window_for(self.confidentiality));
        if !must_initiate {
            return true;
        }
        //= RFC 9001 §6.1: "An endpoint MUST NOT initiate a subsequent key update unless it has
        //= received an acknowledgment for a packet that was sent protected with keys from the
        //= current key phase."
        let acknowledged = e.c == 0 || e.confirmed.is_some_and(|g| g >= e.c);
        //= RFC 9001 §6.5: "Endpoints SHOULD wait three times the PTO before initiating a key
        //= update after receiving an acknowledgment that confirms that the previous key update was
        //= received." / the next keys are only created after the retention period
        let retention_over = e.has_next;
        acknowledged && (self.eager || retention_over)
    }

    fn seal_with(key: &mut HKey, phase: KeyPhase, number: u64, largest_acked: u64, buffer: EncoderBuffer) -> Result<usize, ()> {
        let cap = buffer.remaining_capacity();
        let payload = payload_bytes();
        let packet = Short { spin_bit: SpinBit::Zero, key_phase: phase, destination_connection_id: &DCID[..], packet_number: pn(number), payload: &payload[..] };
        match packet.encode_packet(key, &HeaderKey::new(), pn(largest_acked), None, buffer) {
            Ok((_, rest)) => Ok(cap - rest.remaining_capacity()),
            Err(_) => Err(()),
        }
    }

    fn observe(&self) -> Result<(), Violation> {
        for x in [Side::A, Side::B] {
            let e = &self.ends[x.idx()];
            if e.closed {
                continue;
            }
            ensure(e.ks.key_phase() == phase_of(e.c), "keyset.phase", || {
                format!("{:?}: key_phase() = {:?} but the newest generation received is {} (phase {:?})", x, e.ks.key_phase(), e.c, phase_of(e.c))
            })?;
            ensure(e.ks.key_update_in_progress() == e.retire_at.is_some(), "keyset.retention_timer", || {
                format!("{:?}: key_update_in_progress() = {} but reference retention deadline = {:?}", x, e.ks.key_update_in_progress(), e.retire_at)
            })?;
            ensure(e.ks.active_key().encrypted_packets() == e.sealed_with(e.c), "keyset.active_count", || {
                format!("{:?}: active key reports {} sealed packets, reference counted {} for generation {}", x, e.ks.active_key().encrypted_packets(), e.sealed_with(e.c), e.c)
            })?;
            // the receive keys held (observed through the harness key's lifetime): current + next,
            // or old + current during the retention period (RFC 9001 §6.3, §6.5)
            let live: Vec<u16> = e.reg.lock().unwrap().iter().filter(|(_, s)| s.live > 0).map(|(g, _)| *g).collect();
            let want: Vec<u16> = if e.has_next { vec![e.c, e.c + 1] } else { vec![e.c - 1, e.c] };
            ensure(live == want, "keyset.keys_held", || format!("{:?}: key generations held {:?}, reference {:?}", x, live, want))?;
        }
        Ok(())
    }

    fn deliver(&mut self, to: Side, bytes: &[u8], genuine: Option<&Pkt>) -> Result<(), Violation> {
        let now = self.now;
        let e = &mut self.ends[to.idx()];
        let mut buf = bytes.to_vec();
        let addr = SocketAddress::default();
        let info = ConnectionInfo::new(&addr);
        let (packet, _) = ProtectedPacket::decode(DecoderBufferMut::new(&mut buf), &info, &DCID.len()).map_err(|e| Violation::new("machinery.decode", format!("{:?}", e)))?;
        let ProtectedPacket::Short(packet) = packet else {
            return violation("machinery.decode", "not a short packet");
        };
        let largest = pn(e.largest_recv);
        let packet = packet.unprotect(&HeaderKey::new(), largest).map_err(|e| Violation::new("machinery.unprotect", format!("{}", e)))?;
        let wire_phase = packet.key_phase();
        let deadline = now + PTO;
        let result = e.ks.decrypt_packet(packet, largest, deadline);
        let result: Result<Option<u16>, ProcessingError> = match result {
            Ok((clear, rotated)) => {
                let body = clear.payload.into_less_safe_slice();
                ensure(&body[..] == &payload_bytes()[..], "keyset.payload", || "decrypted payload differs from what was sealed".to_string())?;
                Ok(rotated)
            }
            Err(err) => Err(err),
        };
        let is_limit = |err: &ProcessingError| match err {
            ProcessingError::ConnectionError(connection::Error::Transport { code, .. }) => *code == transport::Error::AEAD_LIMIT_REACHED.code,
            _ => false,
        };

        // ---- what RFC 9001 requires of this call ----
        // Some(true): must be accepted, Some(false): must be rejected, None: either
        let (must, promotes) = match genuine {
            None => (Some(false), false),
            Some(p) => {
                let g = p.generation;
                if g == e.c {
                    (Some(true), false)
                } else if g == e.c + 1 {
                    //= RFC 9001 §6.3: "endpoints MUST be able to retain two sets of packet
                    //= protection keys for receiving packets: the current and the next" - except
                    //= "For a short period after a key update completes, up to the PTO, endpoints
                    //= MAY defer generation of the next set of receive packet protection keys."
                    if e.has_next {
                        (Some(true), true)
                    } else {
                        (None, false)
                    }
                } else if g + 1 == e.c {
                    //= RFC 9001 §6.5: old keys are kept for the retention period so that reordered
                    //= packets are still processed; afterwards they are discarded
                    if e.has_next {
                        (Some(false), false)
                    } else {
                        (Some(true), false)
                    }
                } else {
                    (Some(false), false)
                }
            }
        };
        let what = match genuine {
            Some(p) => format!("genuine packet pn {} of generation {} (phase bit {:?})", p.pn, p.generation, wire_phase),
            None => format!("forged packet with phase bit {:?}", wire_phase),
        };
        match &result {
            Ok(rotated) => {
                ensure(must != Some(false), "keyset.accepted", || format!("{:?} at generation {} accepted a {}", to, e.c, what))?;
                if must.is_none() {
                    return violation("keyset.accepted", format!("{:?} at generation {} (next keys not yet created) accepted a {}", to, e.c, what));
                }
                let p = genuine.unwrap();
                if promotes {
                    ensure(*rotated == Some(e.c + 1), "keyset.rotation", || format!("{:?}: first packet of generation {} accepted but reported rotation {:?}", to, e.c + 1, rotated))?;
                    e.c += 1;
                    e.has_next = false;
                    e.retire_at = Some(deadline);
                    e.rotations_reported = *rotated;
                } else {
                    //= RFC 9001 §6.4: a packet protected with old keys never moves the phase
                    if rotated.is_some() {
                        let mut v = Violation::new("keyset.rotation", format!("{:?} at generation {} reported a key rotation ({:?}) for a {}", to, e.c, rotated, what));
                        // one fingerprint for every manifestation of the same failing case (which
                        // generations are involved), independent of the op list that set it up
                        v.fingerprint = format!(
                            "seqmc|c15.keyset|keyset.rotation|packet of generation c{:+} accepted at receive generation c, old keys {}",
                            p.generation as i32 - e.c as i32,
                            if e.has_next { "discarded" } else { "retained" }
                        );
                        return Err(v);
                    }
                }
                e.largest_recv = e.largest_recv.max(p.pn);
                e.peer_seen = Some(e.peer_seen.map_or(p.generation, |g| g.max(p.generation)));
                if let Some(a) = p.ack_generation {
                    e.confirmed = Some(e.confirmed.map_or(a, |g| g.max(a)));
                }
            }
            Err(err) => {
                ensure(must != Some(true), "keyset.rejected", || {
                    format!("{:?} at generation {} (old keys {}) failed to open a {}: {:?}", to, e.c, if e.has_next { "discarded" } else { "retained" }, what, err)
                })?;
                e.failures += 1;
                //= RFC 9001 §6.6: "If the total number of received packets that fail authentication
                //= within the connection, across all keys, exceeds the integrity limit for the
                //= selected AEAD, the endpoint MUST immediately close the connection with a
                //= connection error of type AEAD_LIMIT_REACHED"  (the property: "once the number
                //= ... reaches the integrity limit")
                if e.failures >= INTEGRITY {
                    ensure(is_limit(err), "keyset.integrity_limit", || format!("{:?}: authentication failure #{} (limit {}) returned {:?} instead of AEAD_LIMIT_REACHED", to, e.failures, INTEGRITY, err))?;
                    e.closed = true;
                } else {
                    ensure(!is_limit(err), "keyset.integrity_limit_early", || format!("{:?}: AEAD_LIMIT_REACHED after only {} authentication failures (limit {})", to, e.failures, INTEGRITY))?;
                }
            }
        }
        Ok(())
    }
}

impl Sys for Net {
    type Op = Op;

    fn ops(&self) -> Vec<Op> {
        let mut ops = Vec::new();
        for x in [Side::A, Side::B] {
            if self.may_send(x) {
                ops.push(Op::Send(x));
            }
        }
        for (i, p) in self.bag.iter().enumerate() {
            if !self.ends[p.to.idx()].closed {
                ops.push(Op::Deliver(i));
            }
        }
        // time only matters to the retention timers
        if self.ends.iter().any(|e| !e.closed && e.retire_at.is_some_and(|t| t > self.now)) {
            ops.push(Op::Tick);
        }
        for x in [Side::A, Side::B] {
            let e = &self.ends[x.idx()];
            if !e.closed && e.retire_at.is_some() {
                ops.push(Op::Timeout(x));
            }
        }
        for i in 0..self.bag.len() {
            ops.push(Op::Drop(i));
        }
        for to in [Side::A, Side::B] {
            if !self.ends[to.idx()].closed {
                ops.push(Op::Forge { to, other_phase: false });
                ops.push(Op::Forge { to, other_phase: true });
            }
        }
        ops
    }

    fn step(&mut self, op: &Op) -> Result<(), Violation> {
        match *op {
            Op::Send(x) => {
                let conf = self.confidentiality;
                let e = &mut self.ends[x.idx()];
                let number = e.next_pn;
                let largest_acked = e.largest_acked;
                let mut wire = [0u8; 160];
                let mut used_phase = None;
                let res = e.ks.encrypt_packet(EncoderBuffer::new(&mut wire), |buffer, key, phase| {
                    used_phase = Some(phase);
                    let payload = payload_bytes();
                    let packet = Short { spin_bit: SpinBit::Zero, key_phase: phase, destination_connection_id: &DCID[..], packet_number: pn(number), payload: &payload[..] };
                    packet.encode_packet(key, &HeaderKey::new(), pn(largest_acked), None, buffer)
                });
                let res: Result<usize, bool> = match res {
                    Ok((_, rest)) => Ok(160 - rest.remaining_capacity()),
                    Err(PacketEncodingError::AeadLimitReached(_)) => Err(true),
                    Err(_) => Err(false),
                };
                let s = e.send_generation();
                match res {
                    Ok(len) => {
                        let bytes = wire[..len].to_vec();
                        let (marker, g, tag_pn) = wire_tag(&bytes);
                        ensure(marker && tag_pn == number as u32, "machinery.tag", || "sealed packet does not end in the harness tag".to_string())?;
                        //= RFC 9001 §6.4: "Packets with higher packet numbers MUST be protected with
                        //= either the same or newer packet protection keys than packets with lower
                        //= packet numbers."
                        ensure(e.last_sent.map_or(true, |l| g >= l), "keyset.generation_regressed", || {
                            format!("{:?}: pn {} sealed with generation {} after pn {} was sealed with generation {}", x, number, g, number - 1, e.last_sent.unwrap())
                        })?;
                        ensure(g == s || g == s + 1, "keyset.generation", || format!("{:?} (receiving generation {}, sending {}) sealed pn {} with generation {}", x, e.c, s, number, g))?;
                        ensure(used_phase == Some(phase_of(g)), "keyset.phase_bit", || format!("{:?}: generation {} sent with phase bit {:?}", x, g, used_phase))?;
                        let n = e.sealed.entry(g).or_insert(0);
                        *n += 1;
                        //= RFC 9001 §6.6: "If the total number of encrypted packets with the same key
                        //= exceeds the confidentiality limit for the selected AEAD, the endpoint MUST
                        //= stop using those keys."
                        ensure(*n <= conf, "keyset.confidentiality_limit", || format!("{:?}: generation {} has now sealed {} packets, confidentiality limit {}", x, g, *n, conf))?;
                        e.last_sent = Some(g);
                        e.next_pn += 1;
                        let ack_generation = e.peer_seen;
                        self.bag.push(Pkt { to: x.peer(), pn: number, generation: g, ack_generation, bytes });
                    }
                    Err(true) => {
                        // refusing is the last resort: acceptable only when the newest generation
                        // x may use is exhausted and x may not move on (update already under way,
                        // next keys not yet created, or §6.1 not satisfied)
                        let acknowledged = e.c == 0 || e.confirmed.is_some_and(|g| g >= e.c);
                        let stuck = s > e.c || !e.has_next || !acknowledged;
                        ensure(e.sealed_with(s) >= conf && stuck, "keyset.refused_early", || {
                            format!("{:?} refused to send (AeadLimitReached) with {} of {} packets sealed under generation {} (receiving generation {})", x, e.sealed_with(s), conf, s, e.c)
                        })?;
                        e.refused = true;
                    }
                    Err(false) => return violation("machinery.encode", "packet encoding failed"),
                }
            }
            Op::Deliver(i) => {
                let p = self.bag.remove(i);
                self.deliver(p.to, &p.bytes, Some(&p))?;
                // the sender learns about it through the acknowledgement carried by later packets;
                // for packet number truncation it is enough to know it arrived
                if !self.ends[p.to.idx()].closed {
                    let sender = &mut self.ends[p.to.peer().idx()];
                    sender.largest_acked = sender.largest_acked.max(p.pn);
                }
            }
            Op::Drop(i) => {
                self.bag.remove(i);
            }
            Op::Forge { to, other_phase } => {
                let e = &self.ends[to.idx()];
                let cur = phase_of(e.c);
                let phase = if other_phase { cur.next_phase() } else { cur };
                let number = e.largest_recv + 1;
                let largest = e.largest_recv;
                let mut wire = [0u8; 160];
                let len = Net::seal_with(&mut self.forger, phase, number, largest, EncoderBuffer::new(&mut wire)).map_err(|_| Violation::new("machinery.encode", "forged packet encoding failed"))?;
                let bytes = wire[..len].to_vec();
                self.deliver(to, &bytes, None)?;
            }
            Op::Timeout(x) => {
                let now = self.now;
                let e = &mut self.ends[x.idx()];
                e.ks.on_timeout(now);
                if e.retire_at.is_some_and(|t| t <= now) {
                    //= RFC 9001 §6.5: "After this period, old read keys and their corresponding
                    //= secrets SHOULD be discarded." ... "These updated keys MAY replace the
                    //= previous keys at that time."
                    e.retire_at = None;
                    e.has_next = true;
                }
            }
            Op::Tick => self.now += PTO,
        }
        self.observe()
    }

    fn key(&self) -> u128 {
        let ends: Vec<_> = self
            .ends
            .iter()
            .map(|e| {
                (
                    (e.c, e.retire_at.map(|t| t.saturating_duration_since(self.now)), e.has_next, e.sealed.clone(), e.last_sent),
                    (e.failures, e.peer_seen, e.confirmed, e.rotations_reported, e.closed, e.refused),
                    (e.next_pn, e.largest_recv, e.largest_acked),
                    // real-side observations
                    (e.ks.key_phase() as u8, e.ks.key_update_in_progress(), e.ks.active_key().encrypted_packets(), e.reg.lock().unwrap().clone()),
                )
            })
            .collect();
        let bag: Vec<_> = self.bag.iter().map(|p| (p.to, p.pn, p.generation, p.ack_generation)).collect();
        key128(&(ends, bag, self.eager, self.confidentiality))
    }

    fn outcome(&self) -> u64 {
        let mut o = 0u64;
        for e in &self.ends {
            o = o << 8 | (e.c as u64 & 3) | (e.closed as u64) << 2 | (e.refused as u64) << 3 | (e.failures.min(3)) << 4 | (e.has_next as u64) << 6;
        }
        o
    }
}

pub const FAMILIES: &[&str] = &["keyset"];

fn configs() -> Vec<(u64, &'static str)> {
    vec![(4, "confidentiality 4 / window 2 / integrity 3"), (3, "confidentiality 3 / window 2 / integrity 3"), (2, "confidentiality 2 / window 3 / integrity 3")]
}

pub fn run(family: &str, tier: Tier, out: &mut Output) {
    let eager = match family {
        "keyset" => false,
        "keyset_eager" => true,
        _ => panic!("unknown c15 family {}", family),
    };
    let name = format!("c15.{}", family);
    for (conf, _) in configs() {
        let cfg = Json::obj().set("confidentiality_limit", conf).set("key_update_window", window_for(conf)).set("integrity_limit", INTEGRITY).set("eager", eager);
        out.push(explore("seqmc", &name, cfg, &move || Net::new(conf, eager), &Limits2::depth(tier.pick(14, 17)).wall(tier.pick(90.0, 900.0))));
    }
}

// `Limits` of the explorer, renamed locally: the key-set `Limits` type is imported above
use crate::mccore::Limits as Limits2;

pub fn replay(family: &str, cfg: &Json, hist: &[u16]) -> Result<Vec<String>, (Vec<String>, Violation)> {
    let conf = cfg.get("confidentiality_limit").and_then(|v| v.as_i128()).unwrap_or(4) as u64;
    let eager = family == "keyset_eager" || matches!(cfg.get("eager"), Some(Json::Bool(true)));
    replay_history(&move || Net::new(conf, eager), hist)
}

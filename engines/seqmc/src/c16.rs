// C16 — reassembly buffer and range sets vs. plain reference models (explicit-state search).
use crate::mccore::*;
use s2n_quic_core::{
    ack,
    buffer::{
        reader::{testing::Fallible, Incremental},
        Error as BufError, Reassembler,
    },
    interval_set::{IntervalSet, IntervalSetError},
    packet::number::{Map as PnMap, PacketNumber, PacketNumberRange, PacketNumberSpace, SlidingWindow, SlidingWindowError},
    varint::VarInt,
};
use std::collections::{BTreeMap, BTreeSet};

const VMAX: u64 = (1u64 << 62) - 1;
const KEY: u64 = 0xC16;

// ------------------------------------------------------------------------------------------
// Reassembler
// ------------------------------------------------------------------------------------------

#[derive(Clone, Debug, PartialEq)]
pub enum ROp {
    Write { off: u64, len: usize, fin: bool, err: bool },
    Pop(usize),
    Skip(u64),
    Reset,
}

/// reference model: the set of byte offsets held (as disjoint ranges), how far the reader got,
/// the final size and the highest end offset seen
#[derive(Clone, Debug, Default)]
struct RModel {
    held: BTreeMap<u64, u64>, // start -> end (exclusive), disjoint, non-adjacent, all >= consumed
    consumed: u64,
    final_size: Option<u64>,
    max_recv: u64,
}

impl RModel {
    fn add(&mut self, mut s: u64, mut e: u64) {
        if s >= e {
            return;
        }
        // merge overlapping / adjacent
        let keys: Vec<u64> = self.held.range(..=e).filter(|(_, &ee)| ee >= s).map(|(&k, _)| k).collect();
        for k in keys {
            let ee = self.held.remove(&k).unwrap();
            s = s.min(k);
            e = e.max(ee);
        }
        self.held.insert(s, e);
    }
    fn drop_below(&mut self, off: u64) {
        let keys: Vec<u64> = self.held.range(..off).map(|(&k, _)| k).collect();
        for k in keys {
            let e = self.held.remove(&k).unwrap();
            if e > off {
                self.held.insert(off, e);
            }
        }
    }
    fn contiguous(&self) -> u64 {
        match self.held.get(&self.consumed) {
            Some(&e) => e - self.consumed,
            None => 0,
        }
    }
}

pub struct Reasm {
    real: Reassembler,
    model: RModel,
    base: u64,
    wide: bool,
}

#[derive(Debug, PartialEq, Clone, Copy)]
enum WErr {
    OutOfRange,
    InvalidFin,
    Reader,
}

impl Reasm {
    pub fn new(base: u64, wide: bool) -> Reasm {
        let mut r = Reasm { real: Reassembler::new(), model: RModel::default(), base, wide };
        if base >= 2 {
            let to = base - 2;
            r.real.skip(VarInt::new(to).unwrap()).expect("initial skip");
            r.model.consumed = to;
            r.model.max_recv = to;
        }
        r
    }

    fn expected_write(&self, off: u64, len: usize, fin: bool, err: bool) -> Result<(), WErr> {
        let end = off.checked_add(len as u64).filter(|e| *e <= VMAX).ok_or(WErr::OutOfRange)?;
        let m = &self.model;
        match (fin, m.final_size) {
            (true, Some(f)) => {
                if end != f {
                    return Err(WErr::InvalidFin);
                }
            }
            (true, None) => {
                if m.max_recv > end {
                    return Err(WErr::InvalidFin);
                }
            }
            (false, Some(f)) => {
                if end > f {
                    return Err(WErr::InvalidFin);
                }
            }
            (false, None) => {}
        }
        if err {
            return Err(WErr::Reader);
        }
        Ok(())
    }

    fn observe(&self) -> Result<(), Violation> {
        let m = &self.model;
        let r = &self.real;
        let avail = m.contiguous();
        ensure(r.len() as u64 == avail, "reasm.len", || format!("len()={} model contiguous={}", r.len(), avail))?;
        ensure(r.is_empty() == (avail == 0), "reasm.is_empty", || format!("is_empty()={} model avail={}", r.is_empty(), avail))?;
        ensure(r.consumed_len() == m.consumed, "reasm.consumed_len", || format!("consumed_len()={} model={}", r.consumed_len(), m.consumed))?;
        ensure(r.total_received_len() == m.consumed + avail, "reasm.total_received_len", || {
            format!("total_received_len()={} model={}", r.total_received_len(), m.consumed + avail)
        })?;
        ensure(r.final_size() == m.final_size, "reasm.final_size", || format!("final_size()={:?} model={:?}", r.final_size(), m.final_size))?;
        let wc = m.final_size == Some(m.consumed + avail);
        ensure(r.is_writing_complete() == wc, "reasm.is_writing_complete", || format!("is_writing_complete()={} model={}", r.is_writing_complete(), wc))?;
        let rc = m.final_size == Some(m.consumed);
        ensure(r.is_reading_complete() == rc, "reasm.is_reading_complete", || format!("is_reading_complete()={} model={}", r.is_reading_complete(), rc))?;
        // iter(): concatenation equals the contiguous bytes
        let mut off = m.consumed;
        for chunk in r.iter() {
            for (i, b) in chunk.iter().enumerate() {
                let want = prf_byte(KEY, off + i as u64);
                if *b != want {
                    return violation("reasm.iter_content", format!("iter() byte at offset {} is {:#x}, written {:#x}", off + i as u64, b, want));
                }
            }
            off += chunk.len() as u64;
        }
        ensure(off - m.consumed == avail, "reasm.iter_len", || format!("iter() yields {} bytes, model {}", off - m.consumed, avail))?;
        Ok(())
    }
}

impl Sys for Reasm {
    type Op = ROp;

    fn ops(&self) -> Vec<ROp> {
        let b = self.base;
        let mut offs: Vec<u64> = Vec::new();
        for d in [-2i64, -1, 0, 1, 4094, 4095, 4096] {
            let o = b as i64 as i128 + d as i128;
            if o >= 0 && (o as u64) <= VMAX {
                offs.push(o as u64);
            }
        }
        if self.wide {
            // second allocation-size neighbourhood: one slot further
            for d in [8190u64, 8192, 8193] {
                if b + d <= VMAX {
                    offs.push(b + d);
                }
            }
        }
        let lens: &[usize] = if self.wide { &[0, 1, 2, 4095, 4096, 4097] } else { &[0, 1, 2, 4096, 4097] };
        let mut ops = Vec::new();
        ops.push(ROp::Pop(usize::MAX));
        ops.push(ROp::Pop(1));
        ops.push(ROp::Pop(4096));
        ops.push(ROp::Pop(0));
        for &off in &offs {
            for &len in lens {
                for fin in [false, true] {
                    ops.push(ROp::Write { off, len, fin, err: false });
                }
            }
        }
        ops.push(ROp::Skip(1));
        ops.push(ROp::Skip(4095));
        ops.push(ROp::Skip(4096));
        for &off in &offs {
            for &len in lens {
                for fin in [false, true] {
                    ops.push(ROp::Write { off, len, fin, err: true });
                }
            }
        }
        ops.push(ROp::Reset);
        ops
    }

    fn step(&mut self, op: &ROp) -> Result<(), Violation> {
        match *op {
            ROp::Write { off, len, fin, err } => {
                let expect = self.expected_write(off, len, fin, err);
                let data = prf_vec(KEY, off, len);
                let got: Result<(), WErr> = if off > VMAX {
                    Err(WErr::OutOfRange)
                } else if !err {
                    let o = VarInt::new(off).unwrap();
                    let r = if fin { self.real.write_at_fin(o, &data) } else { self.real.write_at(o, &data) };
                    r.map_err(|e| match e {
                        BufError::OutOfRange => WErr::OutOfRange,
                        BufError::InvalidFin => WErr::InvalidFin,
                        BufError::ReaderError(_) => WErr::Reader,
                    })
                } else {
                    let mut inc = Incremental::new(VarInt::new(off).unwrap());
                    let mut slice: &[u8] = &data;
                    match inc.with_storage(&mut slice, fin) {
                        Err(BufError::OutOfRange) => Err(WErr::OutOfRange),
                        Err(_) => Err(WErr::InvalidFin),
                        Ok(mut ws) => {
                            let mut f = Fallible::new(&mut ws).with_error(());
                            self.real.write_reader(&mut f).map_err(|e| match e {
                                BufError::OutOfRange => WErr::OutOfRange,
                                BufError::InvalidFin => WErr::InvalidFin,
                                BufError::ReaderError(()) => WErr::Reader,
                            })
                        }
                    }
                };
                if err {
                    // a failing reader may be noticed before or after the final-size check: any
                    // error is a correct answer, success is not
                    ensure(got.is_err(), "reasm.write_result", || format!("{:?} with a failing reader returned Ok", op))?;
                } else {
                    ensure(got == expect, "reasm.write_result", || format!("{:?} returned {:?}, reference model says {:?}", op, got, expect))?;
                }
                if expect.is_ok() {
                    let end = off + len as u64;
                    let m = &mut self.model;
                    m.add(off.max(m.consumed), end);
                    if fin {
                        m.final_size = Some(end);
                    }
                    m.max_recv = m.max_recv.max(end);
                }
                // on error: model untouched => observe() below asserts "contents unchanged"
            }
            ROp::Pop(w) => {
                let avail = self.model.contiguous();
                let got = self.real.pop_watermarked(w);
                match got {
                    None => {
                        ensure(avail == 0 || w == 0, "reasm.pop_none", || format!("pop({}) returned None with {} contiguous bytes available", w, avail))?;
                    }
                    Some(chunk) => {
                        let n = chunk.len() as u64;
                        ensure(n > 0 && n <= avail && n <= w as u64, "reasm.pop_len", || format!("pop({}) returned {} bytes, {} available", w, n, avail))?;
                        let base = self.model.consumed;
                        for (i, b) in chunk.iter().enumerate() {
                            let want = prf_byte(KEY, base + i as u64);
                            if *b != want {
                                return violation("reasm.pop_content", format!("pop({}) byte at stream offset {} is {:#x}, written {:#x}", w, base + i as u64, b, want));
                            }
                        }
                        self.model.consumed += n;
                        let c = self.model.consumed;
                        self.model.drop_below(c);
                    }
                }
            }
            ROp::Skip(n) => {
                let m = &self.model;
                let expect: Result<(), WErr> = match m.consumed.checked_add(n).filter(|v| *v <= VMAX) {
                    None => Err(WErr::OutOfRange),
                    Some(new) => match m.final_size {
                        Some(f) if f < new => Err(WErr::InvalidFin),
                        _ => Ok(()),
                    },
                };
                let got = self.real.skip(VarInt::new(n).unwrap()).map_err(|e| match e {
                    BufError::OutOfRange => WErr::OutOfRange,
                    BufError::InvalidFin => WErr::InvalidFin,
                    BufError::ReaderError(_) => WErr::Reader,
                });
                ensure(got == expect, "reasm.skip_result", || format!("skip({}) returned {:?}, model {:?}", n, got, expect))?;
                if expect.is_ok() {
                    let m = &mut self.model;
                    m.consumed += n;
                    m.max_recv = m.max_recv.max(m.consumed);
                    let c = m.consumed;
                    m.drop_below(c);
                }
            }
            ROp::Reset => {
                self.real.reset();
                self.model = RModel::default();
            }
        }
        self.observe()
    }

    fn key(&self) -> u128 {
        key128(&(format!("{:?}", self.real), format!("{:?}", self.model)))
    }

    fn outcome(&self) -> u64 {
        (self.model.held.len() as u64) << 2 | (self.model.final_size.is_some() as u64) << 1 | (self.model.contiguous() > 0) as u64
    }
}

// ------------------------------------------------------------------------------------------
// IntervalSet<u8> (with / without limit)
// ------------------------------------------------------------------------------------------

#[derive(Clone, Debug)]
pub enum IOp {
    Insert(u8, u8),
    InsertFront(u8, u8),
    Remove(u8, u8),
    PopMin,
    Union(u16),
    Difference(u16),
    Intersection(u16),
    Clear,
    InsertInvalid,
}

pub struct ISet {
    real: IntervalSet<u8>,
    model: BTreeSet<u8>,
    limit: Option<usize>,
    n: u8,
    /// > 0: the set starts with this many disjoint intervals [4i, 4i+1] (the structure switches from a
    /// linear scan to a binary search at 16 intervals) and the alphabet is every insert / remove of
    /// 1-3 values over 0..n
    preset: u8,
}

fn runs(m: &BTreeSet<u8>) -> Vec<(u8, u8)> {
    let mut out: Vec<(u8, u8)> = Vec::new();
    for &v in m {
        match out.last_mut() {
            Some((_, hi)) if *hi + 1 == v => *hi = v,
            _ => out.push((v, v)),
        }
    }
    out
}

fn mask_set(mask: u16, n: u8) -> BTreeSet<u8> {
    (0..n).filter(|i| mask & (1 << i) != 0).collect()
}

impl ISet {
    pub fn new(limit: Option<usize>, n: u8) -> ISet {
        let real = match limit {
            Some(l) => IntervalSet::with_limit(std::num::NonZeroUsize::new(l).unwrap()),
            None => IntervalSet::new(),
        };
        ISet { real, model: BTreeSet::new(), limit, n, preset: 0 }
    }
    pub fn new_preset(limit: Option<usize>, preset: u8) -> ISet {
        let mut s = ISet::new(limit, 4 * preset + 2);
        s.preset = preset;
        for i in 0..preset {
            s.real.insert(4 * i..=4 * i + 1).unwrap();
            s.model.extend(4 * i..=4 * i + 1);
        }
        s
    }
    fn from_mask(mask: u16, n: u8) -> IntervalSet<u8> {
        let mut s = IntervalSet::new();
        for (lo, hi) in runs(&mask_set(mask, n)) {
            s.insert(lo..=hi).unwrap();
        }
        s
    }
    fn observe(&self) -> Result<(), Violation> {
        let r = &self.real;
        let m = &self.model;
        let want = runs(m);
        let got: Vec<(u8, u8)> = r.inclusive_ranges().map(|x| (*x.start(), *x.end())).collect();
        ensure(got == want, "iset.ranges", || format!("inclusive_ranges()={:?} reference={:?}", got, want))?;
        let got_rev: Vec<(u8, u8)> = r.inclusive_ranges().rev().map(|x| (*x.start(), *x.end())).collect();
        let mut want_rev = want.clone();
        want_rev.reverse();
        ensure(got_rev == want_rev, "iset.ranges_rev", || format!("rev ranges {:?} vs {:?}", got_rev, want_rev))?;
        let vals: Vec<u8> = r.iter().collect();
        let mvals: Vec<u8> = m.iter().copied().collect();
        ensure(vals == mvals, "iset.iter", || format!("iter()={:?} reference={:?}", vals, mvals))?;
        let vals_rev: Vec<u8> = r.iter().rev().collect();
        let mut mrev = mvals.clone();
        mrev.reverse();
        ensure(vals_rev == mrev, "iset.iter_rev", || format!("iter().rev()={:?} reference={:?}", vals_rev, mrev))?;
        ensure(r.count() == m.len(), "iset.count", || format!("count()={} reference={}", r.count(), m.len()))?;
        ensure(r.interval_len() == want.len(), "iset.interval_len", || format!("interval_len()={} reference={}", r.interval_len(), want.len()))?;
        ensure(r.is_empty() == m.is_empty(), "iset.is_empty", || "is_empty".to_string())?;
        ensure(r.min_value() == m.iter().next().copied(), "iset.min", || format!("min_value()={:?}", r.min_value()))?;
        ensure(r.max_value() == m.iter().next_back().copied(), "iset.max", || format!("max_value()={:?}", r.max_value()))?;
        for v in 0..self.n + 1 {
            ensure(r.contains(&v) == m.contains(&v), "iset.contains", || format!("contains({})={} reference={}", v, r.contains(&v), m.contains(&v)))?;
        }
        Ok(())
    }
}

impl Sys for ISet {
    type Op = IOp;
    fn ops(&self) -> Vec<IOp> {
        let n = self.n;
        let mut ops = Vec::new();
        if self.preset > 0 {
            let min = self.model.iter().next().copied();
            for lo in 0..n {
                for hi in lo..n.min(lo + 3) {
                    ops.push(IOp::Insert(lo, hi));
                    ops.push(IOp::Remove(lo, hi));
                    if min.map_or(true, |m| hi < m) {
                        ops.push(IOp::InsertFront(lo, hi));
                    }
                }
            }
            ops.push(IOp::PopMin);
            return ops;
        }
        for lo in 0..n {
            for hi in lo..n {
                ops.push(IOp::Insert(lo, hi));
            }
        }
        for lo in 0..n {
            for hi in lo..n {
                ops.push(IOp::Remove(lo, hi));
            }
        }
        ops.push(IOp::PopMin);
        let min = self.model.iter().next().copied();
        for lo in 0..n {
            for hi in lo..n {
                if min.map_or(true, |m| hi < m) {
                    ops.push(IOp::InsertFront(lo, hi));
                }
            }
        }
        if self.limit.is_none() {
            let masks: Vec<u16> = (0..(1u16 << n.min(6))).collect();
            for &m in &masks {
                ops.push(IOp::Union(m));
            }
            for &m in &masks {
                ops.push(IOp::Difference(m));
            }
            for &m in &masks {
                ops.push(IOp::Intersection(m));
            }
        }
        ops.push(IOp::Clear);
        ops.push(IOp::InsertInvalid);
        ops
    }
    fn step(&mut self, op: &IOp) -> Result<(), Violation> {
        let before = self.model.clone();
        let mut after = before.clone();
        let res: Result<(), IntervalSetError> = match *op {
            IOp::Insert(lo, hi) => {
                after.extend(lo..=hi);
                self.real.insert(lo..=hi)
            }
            IOp::InsertFront(lo, hi) => {
                after.extend(lo..=hi);
                self.real.insert_front(lo..=hi)
            }
            IOp::Remove(lo, hi) => {
                for v in lo..=hi {
                    after.remove(&v);
                }
                self.real.remove(lo..=hi)
            }
            IOp::PopMin => {
                let want = runs(&before).first().copied();
                let got = self.real.pop_min().map(|i| (i.start_inclusive(), i.end_inclusive()));
                ensure(got == want, "iset.pop_min", || format!("pop_min()={:?} reference={:?}", got, want))?;
                if let Some((lo, hi)) = want {
                    for v in lo..=hi {
                        after.remove(&v);
                    }
                }
                Ok(())
            }
            IOp::Union(mask) => {
                after.extend(mask_set(mask, self.n));
                self.real.union(&ISet::from_mask(mask, self.n))
            }
            IOp::Difference(mask) => {
                for v in mask_set(mask, self.n) {
                    after.remove(&v);
                }
                self.real.difference(&ISet::from_mask(mask, self.n))
            }
            IOp::Intersection(mask) => {
                let o = mask_set(mask, self.n);
                after = before.intersection(&o).copied().collect();
                // also the non-mutating iterator
                let other = ISet::from_mask(mask, self.n);
                let it: Vec<u8> = self.real.intersection_iter(&other).flat_map(|i| i.start_inclusive()..=i.end_inclusive()).collect();
                let want: Vec<u8> = after.iter().copied().collect();
                ensure(it == want, "iset.intersection_iter", || format!("intersection_iter={:?} reference={:?}", it, want))?;
                self.real.intersection(&other)
            }
            IOp::Clear => {
                after.clear();
                self.real.clear();
                Ok(())
            }
            IOp::InsertInvalid => {
                #[allow(clippy::reversed_empty_ranges)]
                let r = self.real.insert(5u8..=2u8);
                ensure(r == Err(IntervalSetError::InvalidInterval), "iset.invalid", || format!("insert(5..=2) returned {:?}", r))?;
                Ok(())
            }
        };
        match res {
            Ok(()) => {
                if let Some(l) = self.limit {
                    let n_after = runs(&after).len();
                    ensure(n_after <= l.max(runs(&before).len()), "iset.limit_exceeded", || {
                        format!("{:?} succeeded leaving {} intervals with limit {}", op, n_after, l)
                    })?;
                }
                self.model = after;
            }
            Err(IntervalSetError::LimitExceeded) => {
                let l = self.limit.unwrap_or(usize::MAX);
                let n_after = runs(&after).len();
                // insertions are rejected exactly when the result would exceed the limit; a removal
                // that has to split an interval is allowed to be refused one interval early (the
                // structure reserves the slot before scanning) - the property only requires that a
                // refused operation reports an error and leaves the contents untouched
                let n_before = runs(&before).len();
                let splitting = matches!(op, IOp::Remove(..)) && n_after > n_before && n_after >= l;
                ensure(n_after > l || splitting, "iset.spurious_limit", || format!("{:?} rejected with LimitExceeded but the result has {} intervals (limit {})", op, n_after, l))?;
                // rejected => contents unchanged (checked by observe against the untouched model)
            }
            Err(e) => return violation("iset.error", format!("{:?} returned {:?}", op, e)),
        }
        self.observe()
    }
    fn key(&self) -> u128 {
        key128(&format!("{:?}|{:?}", self.real, self.real.capacity() > 0))
    }
    fn fork(&self) -> Option<Self> {
        Some(ISet { real: self.real.clone(), model: self.model.clone(), limit: self.limit, n: self.n, preset: self.preset })
    }
    fn outcome(&self) -> u64 {
        runs(&self.model).len() as u64
    }
}

// ------------------------------------------------------------------------------------------
// ack::Ranges with capacity 3
// ------------------------------------------------------------------------------------------

fn pn(v: u64) -> PacketNumber {
    PacketNumberSpace::ApplicationData.new_packet_number(VarInt::new(v).unwrap())
}

#[derive(Clone, Debug)]
pub enum AOp {
    Insert(u64),
    InsertRange(u64, u64),
}

pub struct AckR {
    real: ack::Ranges,
    model: BTreeSet<u64>,
    cap: usize,
    n: u64,
    /// > 0: starts with this many ranges [4i, 4i+1]; alphabet = single numbers and ranges of 2-3
    preset: u64,
}

fn runs64(m: &BTreeSet<u64>) -> Vec<(u64, u64)> {
    let mut out: Vec<(u64, u64)> = Vec::new();
    for &v in m {
        match out.last_mut() {
            Some((_, hi)) if *hi + 1 == v => *hi = v,
            _ => out.push((v, v)),
        }
    }
    out
}

impl AckR {
    pub fn new(cap: usize, n: u64) -> AckR {
        AckR { real: ack::Ranges::new(cap), model: BTreeSet::new(), cap, n, preset: 0 }
    }
    pub fn new_preset(cap: usize, preset: u64) -> AckR {
        let mut a = AckR::new(cap, 4 * preset + 2);
        a.preset = preset;
        for i in 0..preset {
            a.real.insert_packet_number_range(PacketNumberRange::new(pn(4 * i), pn(4 * i + 1))).unwrap();
            a.model.extend(4 * i..=4 * i + 1);
        }
        a
    }
}

impl Sys for AckR {
    type Op = AOp;
    fn ops(&self) -> Vec<AOp> {
        let mut ops = Vec::new();
        for v in 0..self.n {
            ops.push(AOp::Insert(v));
        }
        for lo in 0..self.n {
            let top = if self.preset > 0 { self.n.min(lo + 3) } else { self.n };
            for hi in lo + 1..top {
                ops.push(AOp::InsertRange(lo, hi));
            }
        }
        ops
    }
    fn step(&mut self, op: &AOp) -> Result<(), Violation> {
        let (lo, hi) = match *op {
            AOp::Insert(v) => (v, v),
            AOp::InsertRange(lo, hi) => (lo, hi),
        };
        let res = match *op {
            AOp::Insert(v) => self.real.insert_packet_number(pn(v)),
            AOp::InsertRange(lo, hi) => self.real.insert_packet_number_range(PacketNumberRange::new(pn(lo), pn(hi))),
        };
        // reference: a plain set that, when it would hold more than `cap` ranges, drops its lowest
        // range to make room - unless the new range is itself the lowest, in which case the
        // insertion is refused
        let before = self.model.clone();
        let mut after = before.clone();
        after.extend(lo..=hi);
        let mut expect_dropped: Option<(u64, u64)> = None;
        let mut expect_failed = false;
        if runs64(&after).len() > self.cap {
            let lowest = runs64(&before)[0];
            if lowest.0 < lo {
                // drop lowest *existing* range, then insert
                after = before.clone();
                for v in lowest.0..=lowest.1 {
                    after.remove(&v);
                }
                after.extend(lo..=hi);
                expect_dropped = Some(lowest);
            } else {
                after = before.clone();
                expect_failed = true;
            }
        }
        match res {
            Ok(()) => ensure(expect_dropped.is_none() && !expect_failed, "ackranges.result", || {
                format!("{:?} returned Ok, reference expected dropped={:?} failed={}", op, expect_dropped, expect_failed)
            })?,
            Err(ack::ranges::Error::LowestRangeDropped { min, max }) => {
                let got = (PacketNumber::as_varint(min).as_u64(), PacketNumber::as_varint(max).as_u64());
                ensure(expect_dropped == Some(got), "ackranges.dropped", || format!("{:?} dropped {:?}, reference expected {:?} (failed={})", op, got, expect_dropped, expect_failed))?;
            }
            Err(ack::ranges::Error::RangeInsertionFailed { min, max }) => {
                let got = (PacketNumber::as_varint(min).as_u64(), PacketNumber::as_varint(max).as_u64());
                ensure(expect_failed && got == (lo, hi), "ackranges.failed", || format!("{:?} failed with {:?}, reference expected failed={} dropped={:?}", op, got, expect_failed, expect_dropped))?;
            }
        }
        self.model = after;
        let want = runs64(&self.model);
        let got: Vec<(u64, u64)> = self.real.inclusive_ranges().map(|r| (PacketNumber::as_varint(*r.start()).as_u64(), PacketNumber::as_varint(*r.end()).as_u64())).collect();
        ensure(got == want, "ackranges.content", || format!("after {:?}: ranges {:?}, reference {:?}", op, got, want))?;
        ensure(got.len() <= self.cap, "ackranges.capacity", || format!("{} ranges with capacity {}", got.len(), self.cap))?;
        // the AckRanges view used to write ACK frames: descending order
        use s2n_quic_core::frame::ack::AckRanges as _;
        let view: Vec<(u64, u64)> = (&self.real).ack_ranges().map(|r| (r.start().as_u64(), r.end().as_u64())).collect();
        let mut want_rev = want.clone();
        want_rev.reverse();
        ensure(view == want_rev, "ackranges.view", || format!("ack_ranges() {:?} reference {:?}", view, want_rev))?;
        let spread = match (self.model.iter().next(), self.model.iter().next_back()) {
            (Some(a), Some(b)) => (b - a) as usize,
            _ => 0,
        };
        ensure(self.real.spread() == spread, "ackranges.spread", || format!("spread()={} reference {}", self.real.spread(), spread))?;
        Ok(())
    }
    fn key(&self) -> u128 {
        key128(&format!("{:?}", self.real))
    }
    fn fork(&self) -> Option<Self> {
        Some(AckR { real: self.real.clone(), model: self.model.clone(), cap: self.cap, n: self.n, preset: self.preset })
    }
    fn outcome(&self) -> u64 {
        runs64(&self.model).len() as u64
    }
}

// ------------------------------------------------------------------------------------------
// packet::number::Map<u16>
// ------------------------------------------------------------------------------------------

#[derive(Clone, Debug)]
pub enum MOp {
    InsertNext(u64), // insert at next + skip
    /// insert_or_update at an absolute packet number >= window start (an existing entry is updated,
    /// a missing one - also below the current maximum - is inserted)
    InsertOrUpdate(u64),
    Remove(u64),     // relative to window start: start + k
    RemoveRange(i64, i64, bool),
    Clear,
}

pub struct PMap {
    real: PnMap<u16>,
    model: BTreeMap<u64, u16>,
    next: u64,
    max_distance: u64,
    budget: u64,
}

impl PMap {
    pub fn new(budget: u64) -> PMap {
        PMap { real: PnMap::default(), model: BTreeMap::new(), next: 0, max_distance: 0, budget }
    }
    fn lo(&self) -> u64 {
        self.model.keys().next().copied().unwrap_or(self.next)
    }
    fn observe(&self) -> Result<(), Violation> {
        let got: Vec<(u64, u16)> = self.real.iter().map(|(p, v)| (p.as_u64(), *v)).collect();
        let want: Vec<(u64, u16)> = self.model.iter().map(|(k, v)| (*k, *v)).collect();
        ensure(got == want, "pnmap.iter", || format!("iter()={:?} reference={:?}", got, want))?;
        ensure(self.real.is_empty() == self.model.is_empty(), "pnmap.is_empty", || format!("is_empty()={}", self.real.is_empty()))?;
        if !self.model.is_empty() {
            let r = self.real.get_range();
            let want = (*self.model.keys().next().unwrap(), *self.model.keys().next_back().unwrap());
            ensure((r.start().as_u64(), r.end().as_u64()) == want, "pnmap.range", || format!("get_range()=({},{}) reference={:?}", r.start().as_u64(), r.end().as_u64(), want))?;
        }
        let lo = self.lo().saturating_sub(2);
        for p in lo..self.next + 2 {
            let g = self.real.get(pn(p)).copied();
            let w = self.model.get(&p).copied();
            ensure(g == w, "pnmap.get", || format!("get({})={:?} reference={:?}", p, g, w))?;
        }
        Ok(())
    }
}

impl Sys for PMap {
    type Op = MOp;
    fn ops(&self) -> Vec<MOp> {
        let mut ops = Vec::new();
        if self.next < self.budget {
            ops.push(MOp::InsertNext(0));
            ops.push(MOp::InsertNext(1));
            ops.push(MOp::InsertNext(9));
        }
        if !self.model.is_empty() {
            // existing first / middle / last entries, a hole below the maximum (if any) and the next number
            let first = *self.model.keys().next().unwrap();
            let last = *self.model.keys().next_back().unwrap();
            let mut t: BTreeSet<u64> = BTreeSet::new();
            t.insert(first);
            t.insert(last);
            t.insert((first + last) / 2);
            if let Some(hole) = (first..last).find(|p| !self.model.contains_key(p)) {
                t.insert(hole);
            }
            if self.next < self.budget {
                t.insert(self.next);
            }
            for p in t {
                ops.push(MOp::InsertOrUpdate(p));
            }
        }
        let lo = self.lo();
        let hi = self.next;
        // removal targets: first, second, a middle one, last, and one outside either end
        let mut t: BTreeSet<u64> = BTreeSet::new();
        for p in [lo, lo + 1, (lo + hi) / 2, hi.saturating_sub(1), hi, lo.saturating_sub(1)] {
            t.insert(p);
        }
        for &p in &t {
            ops.push(MOp::Remove(p));
        }
        let lo = lo as i64;
        let hi = hi as i64;
        let mid = (lo + hi) / 2;
        let mut rs: BTreeSet<(i64, i64)> = BTreeSet::new();
        for (a, b) in [(lo - 1, hi + 1), (lo, hi - 1), (lo, mid), (lo - 1, lo), (mid, hi - 1), (mid, hi + 2), (lo + 1, mid), (lo + 1, hi - 2), (hi + 1, hi + 3), (mid, mid)] {
            if a >= 0 && b >= a {
                rs.insert((a, b));
            }
        }
        for &(a, b) in &rs {
            ops.push(MOp::RemoveRange(a, b, true));
        }
        for &(a, b) in rs.iter().take(4) {
            ops.push(MOp::RemoveRange(a, b, false));
        }
        ops.push(MOp::Clear);
        ops
    }
    fn step(&mut self, op: &MOp) -> Result<(), Violation> {
        match *op {
            MOp::InsertNext(skip) => {
                let p = self.next + skip;
                let v = (p as u16).wrapping_mul(31).wrapping_add(7);
                if let Some(lo) = self.model.keys().next() {
                    self.max_distance = self.max_distance.max(p - lo);
                }
                self.real.insert(pn(p), v);
                self.model.insert(p, v);
                self.next = p + 1;
            }
            MOp::InsertOrUpdate(p) => {
                let v = (p as u16).wrapping_mul(31).wrapping_add(7);
                if let Some(lo) = self.model.keys().next() {
                    self.max_distance = self.max_distance.max(p.saturating_sub(*lo));
                }
                self.real.insert_or_update(pn(p), v, |old| *old = old.wrapping_add(1));
                match self.model.get_mut(&p) {
                    Some(old) => *old = old.wrapping_add(1),
                    None => {
                        self.model.insert(p, v);
                    }
                }
                self.next = self.next.max(p + 1);
            }
            MOp::Remove(p) => {
                let g = self.real.remove(pn(p));
                let w = self.model.remove(&p);
                ensure(g == w, "pnmap.remove", || format!("remove({})={:?} reference={:?}", p, g, w))?;
            }
            MOp::RemoveRange(a, b, drain) => {
                let (a, b) = (a as u64, b as u64);
                let want: Vec<(u64, u16)> = self.model.range(a..=b).map(|(k, v)| (*k, *v)).collect();
                for (k, _) in &want {
                    self.model.remove(k);
                }
                let mut it = self.real.remove_range(PacketNumberRange::new(pn(a), pn(b)));
                if drain {
                    let got: Vec<(u64, u16)> = it.by_ref().map(|(p, v)| (p.as_u64(), v)).collect();
                    drop(it);
                    ensure(got == want, "pnmap.remove_range", || format!("remove_range({}..={}) yielded {:?} reference {:?}", a, b, got, want))?;
                } else {
                    // consume only the first element, the rest must be removed on drop
                    let first = it.next().map(|(p, v)| (p.as_u64(), v));
                    drop(it);
                    ensure(first == want.first().copied(), "pnmap.remove_range_first", || format!("first of remove_range({}..={}) = {:?} reference {:?}", a, b, first, want.first()))?;
                }
            }
            MOp::Clear => {
                self.real.clear();
                self.model.clear();
            }
        }
        self.observe()
    }
    fn key(&self) -> u128 {
        key128(&(format!("{:?}", self.real), self.next, self.max_distance))
    }
    fn fork(&self) -> Option<Self> {
        Some(PMap { real: self.real.clone(), model: self.model.clone(), next: self.next, max_distance: self.max_distance, budget: self.budget })
    }
    fn outcome(&self) -> u64 {
        self.model.len() as u64
    }
}

// ------------------------------------------------------------------------------------------
// SlidingWindow
// ------------------------------------------------------------------------------------------

#[derive(Clone, Debug)]
pub enum SOp {
    Insert(u64),
}

pub struct SWin {
    real: SlidingWindow,
    seen: BTreeSet<u64>,
    max: Option<u64>,
    alphabet: Vec<u64>,
}

const WIDTH: u64 = 129;

impl SWin {
    pub fn new(alphabet: Vec<u64>) -> SWin {
        SWin { real: SlidingWindow::default(), seen: BTreeSet::new(), max: None, alphabet }
    }
    fn expect(&self, p: u64) -> Result<(), SlidingWindowError> {
        match self.max {
            None => Ok(()),
            Some(m) => {
                if p > m {
                    Ok(())
                } else if m - p >= WIDTH {
                    Err(SlidingWindowError::TooOld)
                } else if self.seen.contains(&p) {
                    Err(SlidingWindowError::Duplicate)
                } else {
                    Ok(())
                }
            }
        }
    }
}

impl Sys for SWin {
    type Op = SOp;
    fn ops(&self) -> Vec<SOp> {
        self.alphabet.iter().map(|&p| SOp::Insert(p)).collect()
    }
    fn step(&mut self, op: &SOp) -> Result<(), Violation> {
        let SOp::Insert(p) = *op;
        // check() agrees with the reference for every alphabet member, before the insert
        for &q in &self.alphabet {
            let g = self.real.check(pn(q));
            let w = self.expect(q);
            ensure(g == w, "swin.check", || format!("check({})={:?} reference={:?}", q, g, w))?;
        }
        let w = self.expect(p);
        let g = self.real.insert_with_evicted(pn(p));
        match (&g, &w) {
            (Ok(_), Ok(())) => {}
            (Err(a), Err(b)) if a == b => {}
            _ => return violation("swin.insert", format!("insert({}) = {:?}, reference {:?}", p, g.as_ref().map(|_| ()), w)),
        }
        if let Ok(evicted) = g {
            // evicted = numbers that were still acceptable (unseen, inside the window) before and
            // have now slid out of the window
            let old_max = self.max;
            let new_max = old_max.map_or(p, |m| m.max(p));
            let mut want: BTreeSet<u64> = BTreeSet::new();
            if let Some(om) = old_max {
                if new_max > om {
                    let old_lo = om.saturating_sub(WIDTH - 1);
                    for q in old_lo..om {
                        let still = new_max - q < WIDTH;
                        if !still && !self.seen.contains(&q) {
                            want.insert(q);
                        }
                    }
                }
            }
            let got: BTreeSet<u64> = evicted.map(|e| e.as_u64()).collect();
            ensure(got == want, "swin.evicted", || format!("insert({}) evicted {:?}, reference {:?}", p, got, want))?;
            self.seen.insert(p);
            self.max = Some(new_max);
            // forget what slid out (keeps the key small; they are TooOld forever)
            let lo = new_max.saturating_sub(WIDTH - 1);
            self.seen = self.seen.split_off(&lo);
        }
        Ok(())
    }
    fn key(&self) -> u128 {
        key128(&format!("{:?}", self.real))
    }
    fn fork(&self) -> Option<Self> {
        Some(SWin { real: self.real.clone(), seen: self.seen.clone(), max: self.max, alphabet: self.alphabet.clone() })
    }
    fn outcome(&self) -> u64 {
        self.seen.len() as u64
    }
}

// ------------------------------------------------------------------------------------------
// family registry
// ------------------------------------------------------------------------------------------

pub const FAMILIES: &[&str] = &["reasm", "iset", "ackranges", "pnmap", "swin"];

fn swin_alphabet() -> Vec<u64> {
    let mut a = vec![0, 1, 2, 3];
    a.extend(126..=131);
    a.extend(255..=258);
    a.push(1 << 20);
    a
}

pub fn run(family: &str, tier: Tier, out: &mut Output) {
    match family {
        "reasm" => {
            let bases: &[u64] = &[0, 4096, 65536, 262_144, 1 << 20, VMAX - 4097];
            for &b in bases {
                let d = tier.pick(5, 7);
                let cfg = Json::obj().set("base", b).set("wide", false);
                out.push(explore("seqmc", "c16.reasm", cfg, &move || Reasm::new(b, false), &Limits::depth(d).wall(tier.pick(25.0, 400.0))));
            }
            for &b in &[0u64, 65536] {
                let cfg = Json::obj().set("base", b).set("wide", true);
                out.push(explore("seqmc", "c16.reasm", cfg, &move || Reasm::new(b, true), &Limits::depth(tier.pick(3, 5)).wall(tier.pick(30.0, 400.0))));
            }
        }
        "iset" => {
            for (limit, n) in [(None, 8u8), (Some(3usize), 8u8), (Some(1), 6), (Some(2), 7)] {
                let cfg = Json::obj().set("limit", limit.map(|l| l as i128).unwrap_or(-1)).set("n", n);
                out.push(explore("seqmc", "c16.iset", cfg, &move || ISet::new(limit, n), &Limits::depth(tier.pick(6, 10)).wall(60.0)));
            }
            // started from 16-20 disjoint intervals: IntervalSet::index_for scans linearly below 16
            // intervals and uses a binary search from 16 on, which the small alphabets above never reach
            for (limit, preset) in [(None, 18u8), (Some(18usize), 18u8), (Some(16), 16), (Some(20), 17), (None, 15)] {
                let cfg = Json::obj().set("limit", limit.map(|l| l as i128).unwrap_or(-1)).set("n", 4 * preset + 2).set("preset", preset);
                out.push(explore("seqmc", "c16.iset", cfg, &move || ISet::new_preset(limit, preset), &Limits::depth(3).wall(tier.pick(40.0, 300.0))));
            }
        }
        "ackranges" => {
            for (cap, n) in [(3usize, 10u64), (1, 6), (2, 8)] {
                let cfg = Json::obj().set("capacity", cap).set("n", n);
                out.push(explore("seqmc", "c16.ackranges", cfg, &move || AckR::new(cap, n), &Limits::depth(tier.pick(8, 12)).wall(60.0)));
            }
            // capacities of 16 and more, full or nearly full (binary-search path of the interval set)
            for (cap, preset) in [(16usize, 16u64), (18, 17), (20, 20)] {
                let cfg = Json::obj().set("capacity", cap).set("n", 4 * preset + 2).set("preset", preset);
                out.push(explore("seqmc", "c16.ackranges", cfg, &move || AckR::new_preset(cap, preset), &Limits::depth(3).wall(tier.pick(40.0, 300.0))));
            }
        }
        "pnmap" => {
            let budget = tier.pick(40u64, 80);
            let cfg = Json::obj().set("insert_budget", budget);
            out.push(explore("seqmc", "c16.pnmap", cfg, &move || PMap::new(budget), &Limits::depth(tier.pick(7, 10)).wall(tier.pick(30.0, 300.0))));
        }
        "swin" => {
            let cfg = Json::obj().set("alphabet", swin_alphabet());
            out.push(explore("seqmc", "c16.swin", cfg, &|| SWin::new(swin_alphabet()), &Limits::depth(tier.pick(5, 7)).wall(tier.pick(30.0, 300.0))));
        }
        _ => panic!("unknown c16 family {}", family),
    }
}

pub fn replay(family: &str, cfg: &Json, hist: &[u16]) -> Result<Vec<String>, (Vec<String>, Violation)> {
    let geti = |k: &str| cfg.get(k).and_then(|v| v.as_i128()).unwrap_or(0);
    match family {
        "reasm" => {
            let b = geti("base") as u64;
            let wide = matches!(cfg.get("wide"), Some(Json::Bool(true)));
            replay_history(&move || Reasm::new(b, wide), hist)
        }
        "iset" => {
            let l = geti("limit");
            let limit = if l < 0 { None } else { Some(l as usize) };
            let n = geti("n") as u8;
            let preset = geti("preset") as u8;
            if preset > 0 {
                return replay_history(&move || ISet::new_preset(limit, preset), hist);
            }
            replay_history(&move || ISet::new(limit, n), hist)
        }
        "ackranges" => {
            let cap = geti("capacity") as usize;
            let n = geti("n") as u64;
            let preset = geti("preset") as u64;
            if preset > 0 {
                return replay_history(&move || AckR::new_preset(cap, preset), hist);
            }
            replay_history(&move || AckR::new(cap, n), hist)
        }
        "pnmap" => {
            let b = geti("insert_budget") as u64;
            replay_history(&move || PMap::new(b), hist)
        }
        "swin" => replay_history(&|| SWin::new(swin_alphabet()), hist),
        _ => panic!("unknown c16 family {}", family),
    }
}

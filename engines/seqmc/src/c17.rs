// C17 (second half) - the real `s2n_quic_platform::socket::ring::{Producer, Consumer}` by
// explicit-state search over interleaved *calls*.
//
// `socket::ring` cannot run under loom (it conjures its two cursor atomics out of zeroed raw
// memory), so its synchronisation constituents are checked under loom (loommc: `Cursor` +
// `atomic_waker::pair`) and the real ring - index arithmetic, cached counts, the
// primary/secondary replication across the wrap - is checked here with whole API calls as
// atomic steps. Every `Cursor` method performs at most one atomic access, so call-granular
// interleavings are all sequentially consistent interleavings of the index logic. The park/wake
// half of `poll_acquire` is NOT covered here (see loommc c17_a_cursor_*).
//
// Needs in Cargo.toml:
//   s2n-quic-platform = { path = "/repo/quic/s2n-quic-platform", default-features = false, features = ["std"] }
//
// Family `c17.ring`
//   alphabet: PAcquire(w) w in {1, entries, MAX} | PWrite{n, wake} n in 0..=acquired |
//             CAcquire(w) | CRead{n} n in 0..=acquired
//   model   : FIFO of message tags + the two cached counts (what each side has acquired)
//   oracle  : counts returned by acquire, `data().len()`, and for every message the consumer can
//             see: payload bytes, payload length and remote address equal what the producer
//             wrote, in order, also across the wrap; payload lengths reset by the consumer are
//             what the producer finds in the slots it re-acquires.
//   key     : model state + ring position (tags are taken modulo 2*entries so that the space is
//             finite and reaches its fixpoint)
use crate::mccore::*;
use s2n_quic_core::inet::SocketAddress;
use s2n_quic_platform::{
    message::{simple::Message as Msg, Message as _},
    socket::ring::{self, Consumer, Producer},
};
use std::collections::VecDeque;

const PAYLOAD: u32 = 8;

#[derive(Clone, Debug, PartialEq)]
pub enum Op {
    PAcquire(u32),
    PWrite { n: u32, wake: bool },
    CAcquire(u32),
    CRead { n: u32 },
}

pub struct Ring {
    producer: Producer<Msg>,
    consumer: Consumer<Msg>,
    entries: u32,
    // ---- model ----
    /// tags of messages released by the producer and not yet released by the consumer
    queue: VecDeque<u32>,
    /// what the producer / consumer currently hold (result of their last acquire minus releases)
    p_have: u32,
    c_have: u32,
    /// next tag to write (mod 2*entries) and ring position of the producer (mod entries)
    next_tag: u32,
    p_pos: u32,
}

fn tag_len(tag: u32) -> usize {
    1 + (tag as usize * 3) % PAYLOAD as usize
}

fn tag_payload(tag: u32) -> Vec<u8> {
    prf_vec(0xC17 ^ tag as u64, 0, tag_len(tag))
}

fn tag_addr(tag: u32) -> SocketAddress {
    let mut a = SocketAddress::default();
    a.set_port(4000 + tag as u16);
    a
}

impl Ring {
    pub fn new(entries: u32) -> Ring {
        let (producer, consumer) = ring::pair::<Msg>(entries, PAYLOAD);
        // `Cursor::init_producer` starts the producer with the whole (empty) ring acquired
        Ring { producer, consumer, entries, queue: VecDeque::new(), p_have: entries, c_have: 0, next_tag: 0, p_pos: 0 }
    }

    fn modulus(&self) -> u32 {
        self.entries * 2
    }
}

impl Sys for Ring {
    type Op = Op;

    fn ops(&self) -> Vec<Op> {
        let mut v = Vec::new();
        for w in [1, self.entries, u32::MAX] {
            v.push(Op::PAcquire(w));
        }
        for w in [1, self.entries, u32::MAX] {
            v.push(Op::CAcquire(w));
        }
        for n in 0..=self.p_have {
            v.push(Op::PWrite { n, wake: true });
        }
        for n in 1..=self.p_have {
            v.push(Op::PWrite { n, wake: false });
        }
        for n in 0..=self.c_have {
            v.push(Op::CRead { n });
        }
        v
    }

    fn step(&mut self, op: &Op) -> Result<(), Violation> {
        match op {
            Op::PAcquire(w) => {
                let got = self.producer.acquire(*w);
                // either the up-to-date count, or the cached one when that already satisfies the
                // (capped) watermark - caching is an optimisation the property does not constrain
                let want = (*w).min(self.entries);
                let actual = self.entries - self.queue.len() as u32;
                let cached_ok = self.p_have >= want && got == self.p_have;
                ensure(cached_ok || got == actual, "ring.p_acquire", || {
                    format!("producer.acquire({}) = {}, free slots {} (cached {})", w, got, actual, self.p_have)
                })?;
                self.p_have = got;
                let data = self.producer.data();
                ensure(data.len() as u32 == got, "ring.p_data_len", || format!("producer.data().len() = {}, acquired {}", data.len(), got))?;
                // free slots carry the payload length the consumer reset them to (or the initial one)
                for (i, m) in data.iter().enumerate() {
                    ensure(m.payload_len() == PAYLOAD as usize, "ring.p_slot_reset", || {
                        format!("free slot {} has payload_len {} (consumer reset it to {})", i, m.payload_len(), PAYLOAD)
                    })?;
                }
            }
            Op::PWrite { n, wake } => {
                let n = *n;
                let modulus = self.modulus();
                {
                    let data = self.producer.data();
                    ensure(data.len() as u32 == self.p_have, "ring.p_data_len", || format!("producer.data().len() = {}, model holds {}", data.len(), self.p_have))?;
                    for (i, m) in data.iter_mut().take(n as usize).enumerate() {
                        let tag = (self.next_tag + i as u32) % modulus;
                        let p = tag_payload(tag);
                        unsafe {
                            m.reset(PAYLOAD as usize);
                        }
                        m.payload_mut()[..p.len()].copy_from_slice(&p);
                        unsafe {
                            m.set_payload_len(p.len());
                        }
                        m.set_remote_address(&tag_addr(tag));
                    }
                }
                if *wake {
                    self.producer.release(n);
                } else {
                    self.producer.release_no_wake(n);
                }
                for i in 0..n {
                    self.queue.push_back((self.next_tag + i) % modulus);
                }
                self.next_tag = (self.next_tag + n) % modulus;
                self.p_pos = (self.p_pos + n) % self.entries;
                self.p_have -= n;
            }
            Op::CAcquire(w) => {
                let got = self.consumer.acquire(*w);
                let want = (*w).min(self.entries);
                let actual = self.queue.len() as u32;
                let cached_ok = self.c_have >= want && got == self.c_have;
                ensure(cached_ok || got == actual, "ring.c_acquire", || {
                    format!("consumer.acquire({}) = {}, filled slots {} (cached {})", w, got, actual, self.c_have)
                })?;
                self.c_have = got;
                self.check_visible()?;
            }
            Op::CRead { n } => {
                let n = *n;
                self.check_visible()?;
                {
                    let data = self.consumer.data();
                    for m in data.iter_mut().take(n as usize) {
                        unsafe {
                            m.reset(PAYLOAD as usize);
                        }
                    }
                }
                self.consumer.release(n);
                for _ in 0..n {
                    self.queue.pop_front();
                }
                self.c_have -= n;
                self.check_visible()?;
            }
        }
        Ok(())
    }

    fn key(&self) -> u128 {
        key128(&(self.entries, &self.queue, self.p_have, self.c_have, self.next_tag, self.p_pos))
    }

    fn outcome(&self) -> u64 {
        ((self.queue.len() as u64) << 8) | ((self.p_have as u64) << 4) | self.c_have as u64
    }
}

impl Ring {
    /// everything the consumer can see is exactly the front of the FIFO
    fn check_visible(&mut self) -> Result<(), Violation> {
        let have = self.c_have;
        let queue = self.queue.clone();
        let data = self.consumer.data();
        ensure(data.len() as u32 == have, "ring.c_data_len", || format!("consumer.data().len() = {}, model holds {}", data.len(), have))?;
        for (i, m) in data.iter_mut().enumerate() {
            let tag = queue[i];
            let want = tag_payload(tag);
            ensure(m.payload_len() == want.len(), "ring.c_payload_len", || {
                format!("message {} (tag {}): payload_len {} != {}", i, tag, m.payload_len(), want.len())
            })?;
            let got = m.payload_mut().to_vec();
            ensure(got == want, "ring.c_payload", || format!("message {} (tag {}): payload {} != {}", i, tag, hex(&got), hex(&want)))?;
            let addr = *m.remote_address();
            ensure(addr == tag_addr(tag), "ring.c_address", || format!("message {} (tag {}): address {:?} != {:?}", i, tag, addr, tag_addr(tag)))?;
        }
        Ok(())
    }
}

pub const FAMILIES: &[&str] = &["ring"];

fn configs(tier: Tier) -> Vec<(u32, usize)> {
    // (entries, depth); the reachable state space closes at depth 11 / 12 / .. (fixpoint), the
    // depth bound is only a safety net
    vec![(2, tier.pick(16, 40)), (4, tier.pick(16, 40)), (8, tier.pick(16, 40))]
}

pub fn run(family: &str, tier: Tier, out: &mut Output) {
    match family {
        "ring" => {
            for (entries, depth) in configs(tier) {
                let cfg = Json::obj().set("entries", entries).set("payload", PAYLOAD).set("depth", depth as u64);
                out.push(explore("seqmc", "c17.ring", cfg, &move || Ring::new(entries), &Limits::depth(depth).wall(tier.pick(20.0, 300.0))));
            }
        }
        _ => panic!("unknown c17 family {}", family),
    }
}

pub fn replay(family: &str, cfg: &Json, hist: &[u16]) -> Result<Vec<String>, (Vec<String>, Violation)> {
    match family {
        "ring" => {
            let entries = cfg.get("entries").and_then(|e| e.as_i128()).unwrap_or(2) as u32;
            replay_history(&move || Ring::new(entries), hist)
        }
        _ => panic!("unknown c17 family {}", family),
    }
}

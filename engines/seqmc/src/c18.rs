// C18 — dc: packets round-trip and only authenticated packets are acted upon.
//
// Everything goes through the public API of s2n-quic-dc (`testing` feature): the real encoders,
// decoders, key schedule (`path::secret::schedule::Secret`, both cipher suites), aws-lc AEAD/HMAC
// keys and the real `path::secret::Map`, whose entries are installed by the production dc
// handshake callbacks driven with a deterministic fake TLS exporter.
//
// * `c18.roundtrip` (enumerate)  boundary grid over every field of stream (incl. probes and
//                   retransmissions) / datagram / control / UnknownPathSecret / StaleKey /
//                   ReplayDetected packets: decode(encode(x)) == x after decrypt, announced length ==
//                   consumed length, trailing bytes handed back untouched.
// * `c18.totality`  (enumerate)  every decoder entry point on all short byte strings and on every
//                   single/paired byte substitution of valid packets: returns, never panics.
// * `c18.tamper`    (enumerate)  every byte x 9 masks, every truncation, byte pairs, swaps,
//                   splices with a sibling packet and "sealed under another secret", through the full
//                   receive path: rejected without handing out payload, or nothing acted upon differs.
// * `c18.map`       (explore)    real Map vs a reference model under genuine / tampered / foreign-key
//                   / unknown-id secret-control packets: forged packets change no observable and
//                   raise only rejected/dropped events, genuine ones have their documented effect.
//
// Replay: `explore` artefacts are replayed from `config` + `history`; `enumerate` artefacts get
// `config = {part, thorough, case_index}` attached here and are re-run as that single case.
//
// Shared with c19.rs: `dcenv` (deterministic Map environment).  This file also defines the
// process-wide `clock_gettime` (see `timewarp`).
use crate::mccore::*;

// ------------------------------------------------------------------------------------------
// time: a scoped, thread-local warp of CLOCK_MONOTONIC
// ------------------------------------------------------------------------------------------
//
// `Map` only evicts on UnknownPathSecret when `Entry::age()` (= `Instant::now()` since creation)
// exceeds 10 s (outside the crate's own `cfg(test)`).  To reach that branch without sleeping the
// harness owns the clock: `clock_gettime` is defined here (the statically linked std resolves
// `Instant::now()` to it) and forwards to the raw syscall; a *thread-local* offset is added to
// CLOCK_MONOTONIC only while `timewarp::ahead` runs on that thread.  With the offset at 0 (always,
// outside such a scope, and on every other thread — cleaner threads, mccore's wall caps) the
// function is the identity over the kernel clock.
pub mod timewarp {
    use std::cell::Cell;

    thread_local! {
        static WARP_NS: Cell<i64> = const { Cell::new(0) };
    }

    #[repr(C)]
    pub struct Timespec {
        tv_sec: i64,
        tv_nsec: i64,
    }

    #[cfg(target_arch = "x86_64")]
    const SYS_CLOCK_GETTIME: i64 = 228;
    #[cfg(target_arch = "aarch64")]
    const SYS_CLOCK_GETTIME: i64 = 113;
    const CLOCK_MONOTONIC: i32 = 1;

    extern "C" {
        fn syscall(num: i64, ...) -> i64;
    }

    /// # Safety
    /// C ABI replacement of libc's `clock_gettime`; `ts` must be valid for writes.
    #[no_mangle]
    pub unsafe extern "C" fn clock_gettime(clk: i32, ts: *mut Timespec) -> i32 {
        let r = syscall(SYS_CLOCK_GETTIME, clk as i64, ts) as i32;
        if r == 0 && clk == CLOCK_MONOTONIC {
            let w = WARP_NS.try_with(|w| w.get()).unwrap_or(0);
            if w != 0 {
                let t = &mut *ts;
                let total = t.tv_sec as i128 * 1_000_000_000 + t.tv_nsec as i128 + w as i128;
                t.tv_sec = (total / 1_000_000_000) as i64;
                t.tv_nsec = (total % 1_000_000_000) as i64;
            }
        }
        r
    }

    /// run `f` with this thread's monotonic clock `secs` seconds ahead
    pub fn ahead<T>(secs: i64, f: impl FnOnce() -> T) -> T {
        struct Reset(i64);
        impl Drop for Reset {
            fn drop(&mut self) {
                WARP_NS.with(|w| w.set(self.0));
            }
        }
        let _g = Reset(WARP_NS.with(|w| w.replace(secs * 1_000_000_000)));
        f()
    }

    /// machinery self-check: the warp is visible to `Instant` and is scoped
    pub fn works() -> bool {
        let t0 = std::time::Instant::now();
        let inside = ahead(1000, || t0.elapsed().as_secs());
        let outside = t0.elapsed().as_secs();
        (1000..1002).contains(&inside) && outside < 2
    }
}

// ------------------------------------------------------------------------------------------
// deterministic path-secret map environment (shared with C19)
// ------------------------------------------------------------------------------------------
pub(crate) mod dcenv {
    use crate::mccore::prf_fill;
    use s2n_codec::DecoderBufferMut;
    use s2n_quic_core::{
        crypto::tls::{ChainError, CipherSuite, TlsExportError, TlsSession},
        dc::{self, Endpoint as _, Path as _},
        endpoint,
        event::IntoEvent as _,
        inet::SocketAddress,
        time::NoopClock,
    };
    use s2n_quic_dc::{
        credentials::Id,
        event::{self, api},
        packet,
        path::secret::{
            map::Entry,
            schedule::{self, Ciphersuite},
            stateless_reset::Signer,
            Map,
        },
    };
    use std::net::SocketAddr;
    use std::sync::{
        atomic::{AtomicU64, Ordering},
        Arc, Mutex,
    };

    pub struct FakeSession {
        pub material: [u8; 32],
        pub suite: u8,
    }

    impl TlsSession for FakeSession {
        fn tls_exporter(&self, _label: &[u8], _context: &[u8], output: &mut [u8]) -> Result<(), TlsExportError> {
            if output.len() != self.material.len() {
                return Err(TlsExportError::failure());
            }
            output.copy_from_slice(&self.material);
            Ok(())
        }
        fn cipher_suite(&self) -> CipherSuite {
            match self.suite {
                0 => CipherSuite::TLS_AES_128_GCM_SHA256,
                _ => CipherSuite::TLS_AES_256_GCM_SHA384,
            }
        }
        fn peer_cert_chain_der(&self) -> Result<Vec<Vec<u8>>, ChainError> {
            Err(ChainError::failure())
        }
        fn client_cert_chain_der(&self) -> Result<Option<Vec<u8>>, ChainError> {
            Ok(None)
        }
    }

    /// remove what is not state from a `Debug` rendering: memory addresses (bitvec prints the
    /// storage address of the replay window) and the wall-clock creation time of an entry
    pub fn scrub(d: &str) -> String {
        let mut out = String::with_capacity(d.len());
        let mut rest = d;
        loop {
            let a = rest.find("addr: 0x");
            let c = rest.find("creation_time: Instant {");
            let (i, is_addr) = match (a, c) {
                (None, None) => break,
                (Some(a), None) => (a, true),
                (None, Some(c)) => (c, false),
                (Some(a), Some(c)) => {
                    if a < c {
                        (a, true)
                    } else {
                        (c, false)
                    }
                }
            };
            out.push_str(&rest[..i]);
            let tail = &rest[i..];
            let skip = if is_addr {
                let hex = &tail["addr: 0x".len()..];
                "addr: 0x".len() + hex.find(|ch: char| !ch.is_ascii_hexdigit()).unwrap_or(hex.len())
            } else {
                tail.find('}').map_or(tail.len(), |e| e + 1)
            };
            rest = &tail[skip..];
        }
        out.push_str(rest);
        out
    }

    pub fn suite_of(s: u8) -> Ciphersuite {
        match s {
            0 => Ciphersuite::AES_GCM_128_SHA256,
            _ => Ciphersuite::AES_GCM_256_SHA384,
        }
    }

    /// export secret of peer `p`, handshake generation `g`
    pub fn material(p: u8, g: u8) -> [u8; 32] {
        let mut m = [0u8; 32];
        prf_fill(0xC18_0000 + ((p as u64) << 8) + g as u64, 0, &mut m);
        m
    }

    pub fn addr_of(p: u8) -> SocketAddr {
        SocketAddr::from(([127, 0, 0, 10 + p], 4000 + p as u16))
    }

    #[derive(Default)]
    pub struct Counters {
        pub ups: [AtomicU64; 4], // received, accepted, rejected, dropped
        pub stale: [AtomicU64; 4],
        pub replay: [AtomicU64; 4],
        pub handshake_requested: AtomicU64,
        pub id_evicted: AtomicU64,
        pub addr_evicted: AtomicU64,
        pub inserted: AtomicU64,
        pub ready: AtomicU64,
        pub replaced: AtomicU64,
        pub evicted_ids: Mutex<Vec<Vec<u8>>>,
        pub handshake_cb: Mutex<Vec<SocketAddr>>,
    }

    #[derive(Clone, Debug, Default, PartialEq, Eq, Hash)]
    pub struct Snapshot {
        pub ups: [u64; 4],
        pub stale: [u64; 4],
        pub replay: [u64; 4],
        pub stale_accepted: u64,
        pub handshake_requested: u64,
        pub id_evicted: u64,
        pub addr_evicted: u64,
        pub inserted: u64,
        pub ready: u64,
        pub replaced: u64,
        pub handshake_cb: Vec<SocketAddr>,
    }

    impl Counters {
        pub fn snapshot(&self) -> Snapshot {
            let l = |a: &[AtomicU64; 4]| [a[0].load(Ordering::Relaxed), a[1].load(Ordering::Relaxed), a[2].load(Ordering::Relaxed), a[3].load(Ordering::Relaxed)];
            Snapshot {
                ups: l(&self.ups),
                stale: l(&self.stale),
                replay: l(&self.replay),
                stale_accepted: self.stale[1].load(Ordering::Relaxed),
                handshake_requested: self.handshake_requested.load(Ordering::Relaxed),
                id_evicted: self.id_evicted.load(Ordering::Relaxed),
                addr_evicted: self.addr_evicted.load(Ordering::Relaxed),
                inserted: self.inserted.load(Ordering::Relaxed),
                ready: self.ready.load(Ordering::Relaxed),
                replaced: self.replaced.load(Ordering::Relaxed),
                handshake_cb: self.handshake_cb.lock().unwrap().clone(),
            }
        }
    }

    pub struct Sub(pub Arc<Counters>);

    macro_rules! count {
        ($name:ident, $ev:ident, $($field:tt)+) => {
            fn $name(&self, _meta: &api::EndpointMeta, _event: &api::$ev) {
                self.0.$($field)+.fetch_add(1, Ordering::Relaxed);
            }
        };
    }

    impl event::Subscriber for Sub {
        type ConnectionContext = ();
        fn create_connection_context(&self, _meta: &api::ConnectionMeta, _info: &api::ConnectionInfo) -> Self::ConnectionContext {}

        count!(on_unknown_path_secret_packet_received, UnknownPathSecretPacketReceived, ups[0]);
        count!(on_unknown_path_secret_packet_accepted, UnknownPathSecretPacketAccepted, ups[1]);
        count!(on_unknown_path_secret_packet_rejected, UnknownPathSecretPacketRejected, ups[2]);
        count!(on_unknown_path_secret_packet_dropped, UnknownPathSecretPacketDropped, ups[3]);
        count!(on_stale_key_packet_received, StaleKeyPacketReceived, stale[0]);
        count!(on_stale_key_packet_accepted, StaleKeyPacketAccepted, stale[1]);
        count!(on_stale_key_packet_rejected, StaleKeyPacketRejected, stale[2]);
        count!(on_stale_key_packet_dropped, StaleKeyPacketDropped, stale[3]);
        count!(on_replay_detected_packet_received, ReplayDetectedPacketReceived, replay[0]);
        count!(on_replay_detected_packet_accepted, ReplayDetectedPacketAccepted, replay[1]);
        count!(on_replay_detected_packet_rejected, ReplayDetectedPacketRejected, replay[2]);
        count!(on_replay_detected_packet_dropped, ReplayDetectedPacketDropped, replay[3]);
        count!(on_path_secret_map_background_handshake_requested, PathSecretMapBackgroundHandshakeRequested, handshake_requested);
        count!(on_path_secret_map_entry_inserted, PathSecretMapEntryInserted, inserted);
        count!(on_path_secret_map_entry_ready, PathSecretMapEntryReady, ready);
        count!(on_path_secret_map_entry_replaced, PathSecretMapEntryReplaced, replaced);
        count!(on_path_secret_map_address_entry_evicted, PathSecretMapAddressEntryEvicted, addr_evicted);

        fn on_path_secret_map_id_entry_evicted(&self, _meta: &api::EndpointMeta, event: &api::PathSecretMapIdEntryEvicted) {
            self.0.id_evicted.fetch_add(1, Ordering::Relaxed);
            self.0.evicted_ids.lock().unwrap().push(event.credential_id.to_vec());
        }
    }

    /// what the harness keeps about one installed path secret
    pub struct Installed {
        pub addr: SocketAddr,
        pub id: Id,
        pub entry: Arc<Entry>,
        /// the peer's view of the same secret (it seals what the local entry opens)
        pub peer_secret: schedule::Secret,
    }

    impl Installed {
        /// `Debug` of the sender state (`current_id` + stateless reset), read without consuming an id
        pub fn sender_debug(&self) -> String {
            format!("{:?}", self.entry.sender())
        }
        /// the sender's current counter, parsed from its `Debug` rendering
        pub fn sender_current(&self) -> u64 {
            let d = self.sender_debug();
            let i = d.find("current_id: ").expect("sender Debug has current_id") + "current_id: ".len();
            d[i..].chars().take_while(|c| c.is_ascii_digit()).collect::<String>().parse().expect("current_id is a number")
        }
    }

    /// `testing::sim` installs a global tracing subscriber whose default level is DEBUG (printed
    /// to stdout); keep it quiet unless the caller asked for logs.  Called before any thread of
    /// the exploration exists.
    pub fn quiet_tracing() {
        if std::env::var_os("S2N_LOG").is_none() {
            std::env::set_var("S2N_LOG", "error");
        }
    }

    pub struct Env {
        pub map: Map,
        pub counters: Arc<Counters>,
        pub peer_signer: Signer,
    }

    impl Env {
        pub fn new(evict_on_unknown_path_secret: bool) -> Env {
            let counters = Arc::new(Counters::default());
            // Built inside a (momentary) bach simulation scope: `Cleaner::spawn_thread` then skips its
            // background thread.  The cleaner only acts after parking for >= 5 s, i.e. never within
            // the lifetime of an explored state, but spawning + joining one OS thread per rebuilt
            // state costs ~6 ms against ~70 us this way.
            let mut map = None;
            s2n_quic_dc::testing::sim(|| {
                map = Some(Map::new(Signer::new(b"c18 local stateless reset secret"), 8, evict_on_unknown_path_secret, NoopClock, Sub(counters.clone())));
            });
            let map = map.expect("map built");
            let c2 = counters.clone();
            map.register_request_handshake(Box::new(move |addr, _reason| {
                c2.handshake_cb.lock().unwrap().push(addr);
                None
            }));
            Env { map, counters, peer_signer: Signer::new(b"c18 peer stateless reset secret!") }
        }

        /// install a path secret for peer `p` (generation `g`) through the real dc handshake callbacks
        pub fn handshake(&self, p: u8, g: u8, suite: u8) -> Installed {
            let addr = addr_of(p);
            let material = material(p, g);
            let version = dc::SUPPORTED_VERSIONS[0];
            let remote: SocketAddress = addr.into();
            let info = dc::ConnectionInfo::new(&remote, version, dc::testing::TEST_APPLICATION_PARAMS.clone(), endpoint::Type::Client.into_event());
            let mut map = self.map.clone();
            let mut path = map.new_path(&info).expect("dc path");
            let session = FakeSession { material, suite };
            let tokens = path.on_path_secrets_ready(&session).expect("path secrets");
            assert_eq!(tokens.len(), 1);
            let peer_secret = schedule::Secret::new(suite_of(suite), version, endpoint::Type::Server, &material);
            let id = *peer_secret.id();
            let srt = self.peer_signer.sign(&id);
            let token = s2n_quic_core::stateless_reset::Token::from(srt);
            path.on_peer_stateless_reset_tokens([token].iter());
            path.on_dc_handshake_complete();
            let entry = path.entry().expect("entry installed");
            assert_eq!(*entry.id(), id, "both endpoints derive the same credential id");
            Installed { addr, id, entry, peer_secret }
        }

        /// the network-facing entry point for secret-control datagrams
        /// (`dc::Endpoint::on_possible_secret_control_packet`): true if the bytes decoded
        pub fn deliver_control(&self, bytes: &mut [u8], from: SocketAddr) -> bool {
            let remote: SocketAddress = from.into();
            let info = dc::DatagramInfo::new(&remote);
            let mut map = self.map.clone();
            map.on_possible_secret_control_packet(&info, bytes)
        }

        /// the generic entry point (`Map::handle_unexpected_packet`) behind the full packet
        /// decoder, as the socket router uses it: true if the bytes decoded
        pub fn deliver_unexpected(&self, bytes: &mut [u8], from: SocketAddr) -> bool {
            let buf = DecoderBufferMut::new(bytes);
            match buf.decode_parameterized::<packet::Packet>(16) {
                Ok((pkt, _rest)) => {
                    self.map.handle_unexpected_packet(&pkt, &from);
                    true
                }
                Err(_) => false,
            }
        }
    }
}


// ------------------------------------------------------------------------------------------
// packet construction through the real encoders, reception through the real decoders/openers
// ------------------------------------------------------------------------------------------
pub(crate) mod wire {
    use super::dcenv;
    use crate::mccore::prf_byte;
    use core::convert::Infallible;
    use s2n_codec::{DecoderBufferMut, DecoderError, EncoderBuffer};
    use s2n_quic_core::{
        buffer::{
            reader::{storage::Chunk, Storage as ReaderStorage},
            writer::Storage as WriterStorage,
            Reader,
        },
        dc, endpoint,
        varint::VarInt,
    };
    use s2n_quic_dc::{
        credentials::{Credentials, Id},
        crypto::open::{Application as _, Control as _},
        packet::{
            self, control, datagram,
            secret_control::{self as sc, ReplayDetected, StaleKey, UnknownPathSecret},
            stream, WireVersion,
        },
        path::secret::{
            schedule::{Initiator, Secret},
            stateless_reset::Signer,
        },
    };
    use std::sync::OnceLock;

    pub const VMAX: u64 = (1u64 << 62) - 1;
    pub const TAG_LEN: usize = 16;
    pub const EDGES: [u64; 8] = [0, 63, 64, 16383, 16384, (1 << 30) - 1, 1 << 30, VMAX];
    pub const QUEUE_EDGES: [u64; 8] = [0, 63, 64, 16383, 16384, (1 << 30) - 1, 1 << 30, (1 << 60) - 1];
    pub const KEY_IDS: [u64; 4] = [0, 1, 1 << 32, VMAX];
    pub const PAYLOADS: [usize; 5] = [0, 1, 100, 1200, 8900];
    pub const HDR_LENS: [usize; 3] = [0, 1, 16];

    pub fn vi(v: u64) -> VarInt {
        VarInt::new(v).expect("varint range")
    }

    /// payload byte at position i: never 0x00 and never 0xAA (the two fillers a failed decrypt may
    /// leave behind), position dependent
    pub fn plain(k: u64, len: usize) -> Vec<u8> {
        (0..len)
            .map(|i| {
                let b = prf_byte(0xC18_77 ^ k, i as u64);
                match b {
                    0x00 => 0x01,
                    0xAA => 0xAB,
                    b => b,
                }
            })
            .collect()
    }

    // -- keys: the real key schedule, both endpoints' views of one export secret per suite ------

    pub struct Secrets {
        pub client: Secret,
        pub server: Secret,
        /// an unrelated path secret (for packets authenticated under the wrong secret)
        pub other_client: Secret,
        pub id: Id,
        pub signer: Signer,
    }

    pub fn secrets(suite: u8) -> &'static Secrets {
        static S: OnceLock<[Secrets; 2]> = OnceLock::new();
        &S.get_or_init(|| {
            let mk = |s: u8| {
                let m = dcenv::material(9, s);
                let v = dc::SUPPORTED_VERSIONS[0];
                let client = Secret::new(dcenv::suite_of(s), v, endpoint::Type::Client, &m);
                let server = Secret::new(dcenv::suite_of(s), v, endpoint::Type::Server, &m);
                let other_client = Secret::new(dcenv::suite_of(s), v, endpoint::Type::Client, &dcenv::material(8, s));
                let id = *client.id();
                Secrets { client, server, other_client, id, signer: Signer::new(b"c18 wire stateless reset secret.") }
            };
            [mk(0), mk(1)]
        })[suite as usize & 1]
    }

    // -- a reader with a free choice of offset / final offset ---------------------------------

    pub struct Rd<'a> {
        pub offset: VarInt,
        pub payload: &'a [u8],
        pub cursor: usize,
        pub fin: Option<VarInt>,
        /// hand the bytes out as a trailing chunk (the encoder then uses the AEAD's scatter input)
        pub scatter: bool,
    }

    impl ReaderStorage for Rd<'_> {
        type Error = Infallible;
        fn buffered_len(&self) -> usize {
            self.payload.len() - self.cursor
        }
        fn read_chunk(&mut self, watermark: usize) -> Result<Chunk<'_>, Infallible> {
            let rem = &self.payload[self.cursor..];
            let len = rem.len().min(watermark);
            self.cursor += len;
            Ok((&rem[..len]).into())
        }
        fn partial_copy_into<Dest>(&mut self, dest: &mut Dest) -> Result<Chunk<'_>, Infallible>
        where
            Dest: WriterStorage + ?Sized,
        {
            if self.scatter {
                self.read_chunk(dest.remaining_capacity())
            } else {
                let rem = &self.payload[self.cursor..];
                let len = rem.len().min(dest.remaining_capacity());
                dest.put_slice(&rem[..len]);
                self.cursor += len;
                Ok(Chunk::empty())
            }
        }
    }

    impl Reader for Rd<'_> {
        fn current_offset(&self) -> VarInt {
            if self.cursor == 0 {
                self.offset
            } else {
                VarInt::new(self.offset.as_u64() + self.cursor as u64).unwrap_or(VarInt::MAX)
            }
        }
        fn final_offset(&self) -> Option<VarInt> {
            self.fin
        }
    }

    // -- specs --------------------------------------------------------------------------------

    #[derive(Clone, Debug, PartialEq)]
    pub enum Fin {
        None,
        At,
        Beyond(u64),
    }

    #[derive(Clone, Debug, PartialEq)]
    pub struct StreamSpec {
        pub suite: u8,
        pub key_id: u64,
        pub sqid: Option<u64>,
        pub queue_id: u64,
        pub reliable: bool,
        pub bidi: bool,
        pub pn: u64,
        pub necp: u64,
        pub offset: u64,
        pub fin: Fin,
        pub hdr: usize,
        pub ctl: usize,
        pub payload: usize,
        pub scatter: bool,
        /// a probe: recovery space, MAC only (`encoder::probe`)
        pub probe: bool,
        /// retransmissions applied after encoding: (space is recovery, new packet number)
        pub retx: Vec<(bool, u64)>,
    }

    impl StreamSpec {
        pub fn base() -> StreamSpec {
            StreamSpec { suite: 0, key_id: 1, sqid: None, queue_id: 3, reliable: true, bidi: true, pn: 7, necp: 2, offset: 1000, fin: Fin::None, hdr: 0, ctl: 0, payload: 100, scatter: true, probe: false, retx: vec![] }
        }
        pub fn stream_id(&self) -> stream::Id {
            let mut id = stream::Id::unreliable_unidirectional(vi(self.queue_id)).expect("queue id < 2^60");
            if self.reliable {
                id = id.reliable();
            }
            if self.bidi {
                id = id.bidirectional();
            }
            id
        }
        pub fn final_offset(&self) -> Option<u64> {
            match self.fin {
                Fin::None => None,
                Fin::At => Some(self.offset + self.payload as u64),
                Fin::Beyond(f) => Some(f.max(self.offset + self.payload as u64)),
            }
        }
        pub fn expected_pn(&self) -> u64 {
            self.retx.last().map_or(self.pn, |r| r.1)
        }
        /// keep offset + payload inside the varint range
        pub fn normalised(mut self) -> StreamSpec {
            if self.offset + self.payload as u64 > VMAX {
                self.offset = VMAX - self.payload as u64;
            }
            if self.probe {
                self.payload = 0;
            }
            self
        }
    }

    #[derive(Clone, Debug, PartialEq)]
    pub struct DatagramSpec {
        pub suite: u8,
        pub key_id: u64,
        pub port: u16,
        pub pn: Option<u64>,
        pub necp: Option<u64>,
        pub hdr: usize,
        pub ctl: usize,
        pub payload: usize,
    }

    impl DatagramSpec {
        pub fn base() -> DatagramSpec {
            DatagramSpec { suite: 0, key_id: 1, port: 443, pn: Some(9), necp: None, hdr: 0, ctl: 0, payload: 100 }
        }
    }

    #[derive(Clone, Debug, PartialEq)]
    pub struct ControlSpec {
        pub suite: u8,
        pub key_id: u64,
        pub sqid: Option<u64>,
        /// (queue id, reliable, bidirectional)
        pub stream: Option<(u64, bool, bool)>,
        pub pn: u64,
        pub hdr: usize,
        pub ctl: usize,
    }

    impl ControlSpec {
        pub fn base() -> ControlSpec {
            ControlSpec { suite: 0, key_id: 1, sqid: None, stream: Some((3, true, true)), pn: 5, hdr: 0, ctl: 100 }
        }
    }

    #[derive(Clone, Debug, PartialEq)]
    pub enum SecretKind {
        Ups,
        Stale(u64),
        Replay(u64),
    }

    #[derive(Clone, Debug, PartialEq)]
    pub struct SecretSpec {
        pub suite: u8,
        pub kind: SecretKind,
        pub qid: Option<u64>,
    }

    #[derive(Clone, Debug, PartialEq)]
    pub enum Case {
        Stream(StreamSpec),
        Datagram(DatagramSpec),
        Control(ControlSpec),
        Secret(SecretSpec),
    }

    impl Case {
        pub fn normalised(self) -> Case {
            match self {
                Case::Stream(s) => Case::Stream(s.normalised()),
                c => c,
            }
        }
        pub fn kind(&self) -> &'static str {
            match self {
                Case::Stream(s) if !s.retx.is_empty() => "stream-retx",
                Case::Stream(s) if s.probe => "stream-probe",
                Case::Stream(_) => "stream",
                Case::Datagram(_) => "datagram",
                Case::Control(_) => "control",
                Case::Secret(SecretSpec { kind: SecretKind::Ups, .. }) => "unknown_path_secret",
                Case::Secret(SecretSpec { kind: SecretKind::Stale(_), .. }) => "stale_key",
                Case::Secret(SecretSpec { kind: SecretKind::Replay(_), .. }) => "replay_detected",
            }
        }
        pub fn suite(&self) -> u8 {
            match self {
                Case::Stream(s) => s.suite,
                Case::Datagram(s) => s.suite,
                Case::Control(s) => s.suite,
                Case::Secret(s) => s.suite,
            }
        }
    }

    pub fn app_header(len: usize) -> Vec<u8> {
        (0..len).map(|i| 0xA0u8.wrapping_add(i as u8)).collect()
    }
    pub fn ctl_data(len: usize) -> Vec<u8> {
        (0..len).map(|i| prf_byte(0xC18_C7, i as u64)).collect()
    }

    // -- build --------------------------------------------------------------------------------

    /// encode `case` with the real encoder; returns the wire bytes (exactly the announced length)
    pub fn build(case: &Case) -> Vec<u8> {
        build_with(case, false)
    }

    /// `foreign`: the packet names the receiver's path secret in its credentials but every key
    /// (AEAD, HMAC, stateless-reset signer) comes from an unrelated secret
    pub fn build_with(case: &Case, foreign: bool) -> Vec<u8> {
        match case {
            Case::Stream(s) => build_stream(s, foreign),
            Case::Datagram(s) => build_datagram(s, foreign),
            Case::Control(s) => build_control(s, foreign),
            Case::Secret(s) => build_secret(s, foreign),
        }
    }

    fn key_source(sec: &'static Secrets, foreign: bool) -> &'static Secret {
        if foreign {
            &sec.other_client
        } else {
            &sec.client
        }
    }

    pub fn build_stream(s: &StreamSpec, foreign: bool) -> Vec<u8> {
        let sec = secrets(s.suite);
        let keys = key_source(sec, foreign);
        let creds = Credentials { id: sec.id, key_id: vi(s.key_id) };
        let hdr = app_header(s.hdr);
        let ctl = ctl_data(s.ctl);
        let payload = plain(s.pn, s.payload);
        let mut buf = vec![0u8; 160 + s.hdr + s.ctl + s.payload];
        let mut rd = Rd { offset: vi(s.offset), payload: &payload, cursor: 0, fin: s.final_offset().map(vi), scatter: s.scatter };
        let (ctl_sealer, _) = keys.control_pair(vi(s.key_id), Initiator::Local);
        let len = if s.probe {
            stream::encoder::probe(
                EncoderBuffer::new(&mut buf),
                s.sqid.map(vi),
                s.stream_id(),
                vi(s.pn),
                vi(s.necp),
                vi(s.hdr as u64),
                &mut &hdr[..],
                vi(s.ctl as u64),
                &&ctl[..],
                &mut rd,
                &ctl_sealer,
                &creds,
            )
        } else {
            let (sealer, _, _, _) = keys.application_pair(vi(s.key_id), Initiator::Local);
            stream::encoder::encode(
                EncoderBuffer::new(&mut buf),
                s.sqid.map(vi),
                s.stream_id(),
                vi(s.pn),
                vi(s.necp),
                vi(s.hdr as u64),
                &mut &hdr[..],
                vi(s.ctl as u64),
                &&ctl[..],
                &mut rd,
                &sealer,
                &creds,
            )
        };
        buf.truncate(len);
        for &(recovery, pn) in &s.retx {
            let space = if recovery { stream::PacketSpace::Recovery } else { stream::PacketSpace::Stream };
            stream::decoder::Packet::retransmit(DecoderBufferMut::new(&mut buf), space, vi(pn), &ctl_sealer).expect("retransmit");
        }
        buf
    }

    pub fn build_datagram(s: &DatagramSpec, foreign: bool) -> Vec<u8> {
        let sec = secrets(s.suite);
        let keys = key_source(sec, foreign);
        let creds = Credentials { id: sec.id, key_id: vi(s.key_id) };
        let hdr = app_header(s.hdr);
        let ctl = ctl_data(if s.necp.is_some() { s.ctl } else { 0 });
        let payload = plain(s.pn.unwrap_or(0), s.payload);
        let mut buf = vec![0u8; 160 + s.hdr + s.ctl + s.payload];
        let sealer = keys.application_sealer(vi(s.key_id));
        let len = datagram::encoder::encode(
            EncoderBuffer::new(&mut buf),
            s.port,
            s.pn.map(vi),
            s.necp.map(vi),
            vi(s.hdr as u64),
            &mut &hdr[..],
            &&ctl[..],
            vi(s.payload as u64),
            &mut &payload[..],
            &sealer,
            &creds,
        );
        buf.truncate(len);
        buf
    }

    pub fn build_control(s: &ControlSpec, foreign: bool) -> Vec<u8> {
        let sec = secrets(s.suite);
        let keys = key_source(sec, foreign);
        let creds = Credentials { id: sec.id, key_id: vi(s.key_id) };
        let hdr = app_header(s.hdr);
        let ctl = ctl_data(s.ctl);
        let mut buf = vec![0u8; 160 + s.hdr + s.ctl];
        let (sealer, _) = keys.control_pair(vi(s.key_id), Initiator::Local);
        let sid = s.stream.map(|(q, r, b)| {
            let mut id = stream::Id::unreliable_unidirectional(vi(q)).expect("queue id");
            if r {
                id = id.reliable();
            }
            if b {
                id = id.bidirectional();
            }
            id
        });
        let len = control::encoder::encode(EncoderBuffer::new(&mut buf), s.sqid.map(vi), sid, vi(s.pn), vi(s.hdr as u64), &mut &hdr[..], vi(s.ctl as u64), &&ctl[..], &sealer, &creds);
        buf.truncate(len);
        buf
    }

    pub fn build_secret(s: &SecretSpec, foreign: bool) -> Vec<u8> {
        let sec = secrets(s.suite);
        let srt = if foreign { Signer::new(b"c18 some other stateless reset..").sign(&sec.id) } else { sec.signer.sign(&sec.id) };
        build_secret_with(&s.kind, s.qid, sec.id, key_source(sec, foreign), &srt)
    }

    pub fn build_secret_with(kind: &SecretKind, qid: Option<u64>, id: Id, signer_secret: &Secret, srt: &[u8; 16]) -> Vec<u8> {
        let mut buf = [0u8; sc::MAX_PACKET_SIZE];
        let len = match kind {
            SecretKind::Ups => UnknownPathSecret { credential_id: id, wire_version: WireVersion::ZERO, queue_id: qid.map(vi) }.encode(EncoderBuffer::new(&mut buf), srt),
            SecretKind::Stale(v) => StaleKey { credential_id: id, wire_version: WireVersion::ZERO, queue_id: qid.map(vi), min_key_id: vi(*v) }.encode(EncoderBuffer::new(&mut buf), &signer_secret.control_sealer()),
            SecretKind::Replay(v) => ReplayDetected { credential_id: id, wire_version: WireVersion::ZERO, queue_id: qid.map(vi), rejected_key_id: vi(*v) }.encode(EncoderBuffer::new(&mut buf), &signer_secret.control_sealer()),
        };
        buf[..len].to_vec()
    }

    // -- receive ------------------------------------------------------------------------------

    #[derive(Clone, Debug, PartialEq)]
    pub enum Recv {
        /// no decoder accepted the bytes
        Undecodable(String),
        /// decoded, names a path secret the receiver does not hold
        UnknownCredentials,
        /// decoded, authentication failed; `handed_out` = what the caller's output buffer / the
        /// packet's payload view holds afterwards
        Rejected { why: String, handed_out: Vec<u8> },
        /// authenticated: everything a receiver acts on, rendered canonically
        Accepted { digest: String, consumed: usize },
    }

    pub fn err_class(e: &DecoderError) -> String {
        match e {
            DecoderError::UnexpectedEof(_) => "eof".into(),
            DecoderError::UnexpectedBytes(_) => "unexpected-bytes".into(),
            DecoderError::LengthCapacityExceeded => "length-capacity".into(),
            DecoderError::InvariantViolation(m) => format!("invariant:{}", m),
        }
    }

    /// The receive path of an endpoint that holds the path secret of `suite` (server side):
    /// generic packet decoder, key lookup by the credentials the packet names, then the opener of
    /// the decoded kind.  `in_place` selects `decrypt_in_place` instead of `decrypt` for streams.
    pub fn receive(suite: u8, bytes: &[u8], in_place: bool) -> Recv {
        let sec = secrets(suite);
        let mut buf = bytes.to_vec();
        let total = buf.len();
        let decoded = DecoderBufferMut::new(&mut buf).decode_parameterized::<packet::Packet>(TAG_LEN);
        let (pkt, rest) = match decoded {
            Ok(v) => v,
            Err(e) => return Recv::Undecodable(err_class(&e)),
        };
        let consumed = total - rest.len();
        match pkt {
            packet::Packet::Stream(mut p) => {
                if p.credentials().id != sec.id {
                    return Recv::UnknownCredentials;
                }
                let key_id = p.credentials().key_id;
                let (_, _, opener, _) = sec.server.application_pair(key_id, Initiator::Remote);
                let (_, ctl_opener) = sec.server.control_pair(key_id, Initiator::Remote);
                let mut out = vec![0xAAu8; p.payload().len()];
                let res = if in_place { p.decrypt_in_place(&opener, &ctl_opener) } else { p.decrypt(&opener, &ctl_opener, (&mut out[..]).into()) };
                match res {
                    Err(e) => Recv::Rejected { why: format!("{:?}", e), handed_out: if in_place { p.payload().to_vec() } else { out } },
                    Ok(()) => {
                        let cleartext = if in_place { p.payload().to_vec() } else { out };
                        let t = p.tag();
                        let digest = format!(
                            "kind=stream\ntag.has_source_queue_id={}\ntag.has_control_data={}\ntag.packet_space={:?}\ntag.has_final_offset={}\ntag.has_application_header={}\ntag.key_phase={:?}\ncredentials={:?}\nsource_queue_id={:?}\nstream_id={:?}\npacket_number={}\nis_retransmission={}\nnext_expected_control_packet={}\nstream_offset={}\nfinal_offset={:?}\nis_fin={}\napplication_header={:02x?}\ncontrol_data={:02x?}\npayload={:02x?}",
                            t.has_source_queue_id(),
                            t.has_control_data(),
                            t.packet_space(),
                            t.has_final_offset(),
                            t.has_application_header(),
                            t.key_phase(),
                            p.credentials(),
                            p.source_queue_id(),
                            p.stream_id(),
                            p.packet_number(),
                            p.is_retransmission(),
                            p.next_expected_control_packet(),
                            p.stream_offset(),
                            p.final_offset(),
                            p.is_fin(),
                            p.application_header(),
                            p.control_data(),
                            cleartext
                        );
                        Recv::Accepted { digest, consumed }
                    }
                }
            }
            packet::Packet::Datagram(p) => {
                if p.credentials().id != sec.id {
                    return Recv::UnknownCredentials;
                }
                let opener = sec.server.application_opener(p.credentials().key_id);
                let mut out = vec![0xAAu8; p.payload().len()];
                // what datagram::tunneled::recv::Receiver::recv_into does
                match opener.decrypt(p.tag().key_phase(), p.crypto_nonce(), p.header(), p.payload(), p.auth_tag(), (&mut out[..]).into()) {
                    Err(e) => Recv::Rejected { why: format!("{:?}", e), handed_out: out },
                    Ok(()) => {
                        let digest = format!(
                            "kind=datagram\ntag={:?}\ncredentials={:?}\nsource_control_port={}\npacket_number={}\nnext_expected_control_packet={:?}\napplication_header={:02x?}\ncontrol_data={:02x?}\npayload={:02x?}",
                            p.tag(),
                            p.credentials(),
                            p.source_control_port(),
                            p.packet_number(),
                            p.next_expected_control_packet(),
                            p.application_header(),
                            p.control_data(),
                            out
                        );
                        Recv::Accepted { digest, consumed }
                    }
                }
            }
            packet::Packet::Control(p) => {
                if p.credentials().id != sec.id {
                    return Recv::UnknownCredentials;
                }
                let (_, opener) = sec.server.control_pair(p.credentials().key_id, Initiator::Remote);
                match opener.verify(p.header(), p.auth_tag()) {
                    Err(e) => Recv::Rejected { why: format!("{:?}", e), handed_out: vec![] },
                    Ok(()) => {
                        let digest = format!(
                            "kind=control\ntag={:?}\ncredentials={:?}\nsource_queue_id={:?}\nstream_id={:?}\npacket_number={}\napplication_header={:02x?}\ncontrol_data={:02x?}",
                            p.tag(),
                            p.credentials(),
                            p.source_queue_id(),
                            p.stream_id(),
                            p.packet_number(),
                            p.application_header(),
                            p.control_data()
                        );
                        Recv::Accepted { digest, consumed }
                    }
                }
            }
            packet::Packet::StaleKey(p) => {
                if *p.credential_id() != sec.id {
                    return Recv::UnknownCredentials;
                }
                match p.authenticate(&sec.server.control_opener()) {
                    None => Recv::Rejected { why: "authenticate".into(), handed_out: vec![] },
                    Some(v) => Recv::Accepted { digest: format!("kind=stale_key\ncredential_id={:?}\nqueue_id={:?}\nmin_key_id={}", v.credential_id, v.queue_id, v.min_key_id), consumed },
                }
            }
            packet::Packet::ReplayDetected(p) => {
                if *p.credential_id() != sec.id {
                    return Recv::UnknownCredentials;
                }
                match p.authenticate(&sec.server.control_opener()) {
                    None => Recv::Rejected { why: "authenticate".into(), handed_out: vec![] },
                    Some(v) => Recv::Accepted { digest: format!("kind=replay_detected\ncredential_id={:?}\nqueue_id={:?}\nrejected_key_id={}", v.credential_id, v.queue_id, v.rejected_key_id), consumed },
                }
            }
            packet::Packet::UnknownPathSecret(p) => {
                if *p.credential_id() != sec.id {
                    return Recv::UnknownCredentials;
                }
                match p.authenticate(&sec.signer.sign(&sec.id)) {
                    None => Recv::Rejected { why: "authenticate".into(), handed_out: vec![] },
                    Some(v) => {
                        // the token bytes the packet carried are part of what was accepted
                        let d = format!("{:?}", p);
                        let tag = d.find("crypto_tag:").map(|i| d[i..].trim_end_matches(" }").to_string()).unwrap_or_default();
                        Recv::Accepted { digest: format!("kind=unknown_path_secret\ncredential_id={:?}\nqueue_id={:?}\n{}", v.credential_id, v.queue_id, tag), consumed }
                    }
                }
            }
        }
    }

    // -- an independent reader of the secret-control wire image (for the map oracle) -----------

    #[derive(Clone, Debug, PartialEq)]
    pub struct RefSecret {
        pub kind: u8, // 0 = UnknownPathSecret, 1 = StaleKey, 2 = ReplayDetected
        pub id: [u8; 16],
        pub qid: Option<u64>,
        pub value: Option<u64>,
        pub tag: [u8; 16],
        pub len: usize,
    }

    fn ref_varint(b: &[u8], p: &mut usize) -> Option<u64> {
        let first = *b.get(*p)?;
        let n = 1usize << (first >> 6);
        let s = b.get(*p..*p + n)?;
        let mut v = (first & 0x3f) as u64;
        for x in &s[1..] {
            v = (v << 8) | *x as u64;
        }
        *p += n;
        Some(v)
    }

    /// RFC 9000 §16 varints, layout as written by the three `encode` functions
    pub fn ref_parse_secret(b: &[u8]) -> Option<RefSecret> {
        let t = *b.first()?;
        if t & 0b1111_1000 != 0b0110_0000 || t & 0b11 == 0b11 {
            return None;
        }
        let kind = t & 0b11;
        let has_q = t & 0b100 != 0;
        let id: [u8; 16] = b.get(1..17)?.try_into().ok()?;
        if *b.get(17)? != 0 {
            return None;
        }
        let mut p = 18;
        let qid = if has_q { Some(ref_varint(b, &mut p)?) } else { None };
        let value = if kind != 0 { Some(ref_varint(b, &mut p)?) } else { None };
        let tag: [u8; 16] = b.get(p..p + 16)?.try_into().ok()?;
        Some(RefSecret { kind, id, qid, value, tag, len: p + 16 })
    }
}

use s2n_codec::DecoderBufferMut;
use s2n_quic_dc::{
    crypto::open::{Application as _, Control as _},
    packet::{self, control, datagram, secret_control as sc, stream, WireVersion},
    path::secret::schedule::Initiator,
};
use std::sync::OnceLock;
use wire::*;

const TRAILER: [u8; 5] = [0xEE, 0x00, 0x41, 0xFF, 0x10];

fn case_json(c: &Case) -> Json {
    Json::obj().set("kind", c.kind()).set("spec", format!("{:?}", c))
}

// ------------------------------------------------------------------------------------------
// c18.roundtrip
// ------------------------------------------------------------------------------------------

fn stream_flag_grid(out: &mut Vec<Case>) {
    let mut i = 0usize;
    for suite in [0u8, 1] {
        for &key_id in &KEY_IDS {
            for sqid in [None, Some(64u64)] {
                for reliable in [false, true] {
                    for bidi in [false, true] {
                        for fin in 0..3 {
                            for &hdr in &HDR_LENS {
                                for &ctl in &HDR_LENS {
                                    for &payload in &PAYLOADS {
                                        for scatter in [true, false] {
                                            i += 1;
                                            // rotate the numeric fields through their edges as well
                                            let e = |k: usize| EDGES[(i / k) % 8];
                                            let offset = e(1);
                                            let fin = match fin {
                                                0 => Fin::None,
                                                1 => Fin::At,
                                                _ => Fin::Beyond(e(3)),
                                            };
                                            out.push(Case::Stream(
                                                StreamSpec { suite, key_id, sqid, queue_id: QUEUE_EDGES[(i / 5) % 8], reliable, bidi, pn: e(7), necp: e(11), offset, fin, hdr, ctl, payload, scatter, probe: false, retx: vec![] }.normalised(),
                                            ));
                                        }
                                    }
                                }
                            }
                        }
                    }
                }
            }
        }
    }
}

/// every k-subset of the numeric fields takes every combination of its edge values, the other
/// fields stay at the preset
fn stream_edge_grid(out: &mut Vec<Case>, k: usize) {
    const NF: usize = 7;
    let edges_of = |f: usize| -> &'static [u64] {
        match f {
            1 => &QUEUE_EDGES,
            6 => &KEY_IDS,
            _ => &EDGES,
        }
    };
    let presets = [StreamSpec::base(), StreamSpec { suite: 1, reliable: false, bidi: false, hdr: 16, ctl: 16, payload: 1, scatter: false, fin: Fin::At, ..StreamSpec::base() }];
    for preset in &presets {
        for mask in 0u32..(1 << NF) {
            if mask.count_ones() as usize != k {
                continue;
            }
            let fields: Vec<usize> = (0..NF).filter(|f| mask & (1 << f) != 0).collect();
            let mut idx = vec![0usize; fields.len()];
            loop {
                let mut s = preset.clone();
                for (j, &f) in fields.iter().enumerate() {
                    let v = edges_of(f)[idx[j]];
                    match f {
                        0 => s.sqid = Some(v),
                        1 => s.queue_id = v,
                        2 => s.pn = v,
                        3 => s.necp = v,
                        4 => s.offset = v,
                        5 => s.fin = Fin::Beyond(v),
                        _ => s.key_id = v,
                    }
                }
                out.push(Case::Stream(s.normalised()));
                // odometer
                let mut j = 0;
                loop {
                    if j == fields.len() {
                        break;
                    }
                    idx[j] += 1;
                    if idx[j] < edges_of(fields[j]).len() {
                        break;
                    }
                    idx[j] = 0;
                    j += 1;
                }
                if j == fields.len() {
                    break;
                }
            }
        }
    }
}

fn stream_special_grid(out: &mut Vec<Case>) {
    // probes
    for suite in [0u8, 1] {
        for sqid in [None, Some(16384u64)] {
            for (reliable, bidi) in [(false, false), (true, false), (false, true), (true, true)] {
                for &hdr in &[0usize, 16] {
                    for &ctl in &[0usize, 16] {
                        for fin in [Fin::None, Fin::Beyond(1 << 30)] {
                            for &pn in &EDGES {
                                out.push(Case::Stream(StreamSpec { suite, sqid, reliable, bidi, hdr, ctl, fin: fin.clone(), pn, probe: true, ..StreamSpec::base() }.normalised()));
                            }
                        }
                    }
                }
            }
        }
    }
    // retransmissions (reliable stream ids only; the relative offset is a u32)
    let big = u32::MAX as u64;
    for suite in [0u8, 1] {
        for &key_id in &KEY_IDS {
            for &payload in &[0usize, 1, 100, 1200] {
                for fin in [Fin::None, Fin::At] {
                    for &pn in &EDGES {
                        let pn = pn.min(VMAX - big);
                        for retx in [vec![(false, pn + 1)], vec![(true, pn + 1)], vec![(true, pn + 1), (false, pn + big)], vec![(false, pn + big)], vec![(true, pn + 3), (true, pn + 4), (false, pn + 9)]] {
                            out.push(Case::Stream(StreamSpec { suite, key_id, payload, fin: fin.clone(), pn, retx, ..StreamSpec::base() }.normalised()));
                        }
                    }
                }
            }
        }
    }
}

fn datagram_grid(out: &mut Vec<Case>) {
    for suite in [0u8, 1] {
        for &key_id in &KEY_IDS {
            for port in [0u16, 1, 65535] {
                for &hdr in &HDR_LENS {
                    for &payload in &PAYLOADS {
                        // unconnected
                        out.push(Case::Datagram(DatagramSpec { suite, key_id, port, pn: None, necp: None, hdr, ctl: 0, payload }));
                        for &pn in &EDGES {
                            // connected
                            out.push(Case::Datagram(DatagramSpec { suite, key_id, port, pn: Some(pn), necp: None, hdr, ctl: 0, payload }));
                            // connected + ack eliciting
                            for &necp in &EDGES {
                                for &ctl in &HDR_LENS {
                                    out.push(Case::Datagram(DatagramSpec { suite, key_id, port, pn: Some(pn), necp: Some(necp), hdr, ctl, payload }));
                                }
                            }
                        }
                    }
                }
            }
        }
    }
}

fn control_grid(out: &mut Vec<Case>) {
    let mut sqids = vec![None];
    sqids.extend(EDGES.iter().map(|&e| Some(e)));
    let mut streams = vec![None];
    for &q in &QUEUE_EDGES {
        for (r, b) in [(false, false), (true, false), (false, true), (true, true)] {
            streams.push(Some((q, r, b)));
        }
    }
    for suite in [0u8, 1] {
        for &key_id in &KEY_IDS {
            for sqid in &sqids {
                for st in &streams {
                    for &pn in &EDGES {
                        for &hdr in &HDR_LENS {
                            for &ctl in &[0usize, 1, 100, 1200] {
                                out.push(Case::Control(ControlSpec { suite, key_id, sqid: *sqid, stream: *st, pn, hdr, ctl }));
                            }
                        }
                    }
                }
            }
        }
    }
}

fn secret_grid(out: &mut Vec<Case>) {
    let mut qids = vec![None];
    qids.extend(EDGES.iter().map(|&e| Some(e)));
    for suite in [0u8, 1] {
        for qid in &qids {
            out.push(Case::Secret(SecretSpec { suite, kind: SecretKind::Ups, qid: *qid }));
            for &v in &EDGES {
                out.push(Case::Secret(SecretSpec { suite, kind: SecretKind::Stale(v), qid: *qid }));
                out.push(Case::Secret(SecretSpec { suite, kind: SecretKind::Replay(v), qid: *qid }));
            }
            for &v in &[1u64 << 32, 5] {
                out.push(Case::Secret(SecretSpec { suite, kind: SecretKind::Stale(v), qid: *qid }));
                out.push(Case::Secret(SecretSpec { suite, kind: SecretKind::Replay(v), qid: *qid }));
            }
        }
    }
}

fn roundtrip_grid(thorough: bool) -> Vec<Case> {
    let mut g = Vec::new();
    stream_flag_grid(&mut g);
    stream_edge_grid(&mut g, 1);
    stream_edge_grid(&mut g, 2);
    if thorough {
        stream_edge_grid(&mut g, 3);
    }
    stream_special_grid(&mut g);
    datagram_grid(&mut g);
    control_grid(&mut g);
    secret_grid(&mut g);
    g
}

/// remainder handed back by a decoder must be exactly the bytes that followed the packet
fn check_rest(rest: &[u8], what: &str) -> Result<(), Violation> {
    ensure(rest == TRAILER, "roundtrip.remainder", || format!("{}: decoder returned remainder {:02x?}, the bytes after the packet were {:02x?}", what, rest, TRAILER))
}

fn global_map() -> &'static dcenv::Env {
    static M: OnceLock<dcenv::Env> = OnceLock::new();
    M.get_or_init(|| dcenv::Env::new(false))
}

fn roundtrip_case(case: &Case) -> Result<u64, Violation> {
    let bytes = build(case);
    let len = bytes.len();
    let mut fed = bytes.clone();
    fed.extend_from_slice(&TRAILER);
    let sec = secrets(case.suite());
    macro_rules! eq {
        ($got:expr, $want:expr, $name:expr) => {{
            let g = $got;
            let w = $want;
            ensure(g == w, "roundtrip.field", || format!("{}: decoded {:?}, encoded {:?}", $name, g, w))?;
        }};
    }
    // the generic receive path must agree on acceptance and on the consumed length
    match receive(case.suite(), &fed, false) {
        Recv::Accepted { consumed, .. } => ensure(consumed == len, "roundtrip.length", || format!("generic decoder consumed {} bytes, encoder announced {}", consumed, len))?,
        other => return violation("roundtrip.rejected", format!("a freshly encoded packet was not accepted by the generic receive path: {:?}", other)),
    }
    match case {
        Case::Stream(s) => {
            let key_id = vi(s.key_id);
            let (_, _, opener, _) = sec.server.application_pair(key_id, Initiator::Remote);
            let (_, ctl_opener) = sec.server.control_pair(key_id, Initiator::Remote);
            for in_place in [false, true] {
                let mut buf = fed.clone();
                let (mut p, rest) = stream::decoder::Packet::decode(DecoderBufferMut::new(&mut buf), (), TAG_LEN).map_err(|e| Violation::new("roundtrip.decode", format!("{:?}", e)))?;
                check_rest(rest.into_less_safe_slice(), "stream")?;
                eq!(p.total_len(), len, "total_len vs announced length");
                let t = p.tag();
                eq!(t.has_source_queue_id(), s.sqid.is_some(), "tag.has_source_queue_id");
                eq!(t.has_control_data(), s.ctl > 0, "tag.has_control_data");
                eq!(t.has_final_offset(), s.fin != Fin::None, "tag.has_final_offset");
                eq!(t.has_application_header(), s.hdr > 0, "tag.has_application_header");
                eq!(t.key_phase(), s2n_quic_dc::crypto::KeyPhase::Zero, "tag.key_phase");
                let want_recovery = s.retx.last().map_or(s.probe, |r| r.0);
                eq!(t.packet_space().is_recovery(), want_recovery, "tag.packet_space is recovery");
                eq!(p.wire_version(), WireVersion::ZERO, "wire_version");
                eq!(p.credentials().id, sec.id, "credentials.id");
                eq!(p.credentials().key_id.as_u64(), s.key_id, "credentials.key_id");
                eq!(p.source_queue_id().map(|v| v.as_u64()), s.sqid, "source_queue_id");
                eq!(*p.stream_id(), s.stream_id(), "stream_id");
                eq!(p.packet_number().as_u64(), s.expected_pn(), "packet_number");
                eq!(p.is_retransmission(), s.expected_pn() != s.pn, "is_retransmission");
                eq!(p.next_expected_control_packet().as_u64(), s.necp, "next_expected_control_packet");
                eq!(p.stream_offset().as_u64(), s.offset, "stream_offset");
                eq!(p.final_offset().map(|v| v.as_u64()), s.final_offset(), "final_offset");
                eq!(p.is_fin(), s.final_offset() == Some(s.offset + s.payload as u64), "is_fin");
                eq!(p.application_header().to_vec(), app_header(s.hdr), "application_header");
                eq!(p.control_data().to_vec(), ctl_data(s.ctl), "control_data");
                eq!(p.payload().len(), s.payload, "payload length");
                eq!(p.header().len() + p.payload().len() + p.auth_tag().len(), len, "header+payload+tag length");
                let want = plain(s.pn, s.payload);
                let got = if in_place {
                    p.decrypt_in_place(&opener, &ctl_opener).map_err(|e| Violation::new("roundtrip.decrypt", format!("decrypt_in_place: {:?}", e)))?;
                    p.payload().to_vec()
                } else {
                    let mut out = vec![0u8; s.payload];
                    p.decrypt(&opener, &ctl_opener, (&mut out[..]).into()).map_err(|e| Violation::new("roundtrip.decrypt", format!("decrypt: {:?}", e)))?;
                    out
                };
                ensure(got == want, "roundtrip.payload", || format!("decrypted payload differs from what was sealed ({} bytes)", want.len()))?;
            }
            Ok(match (s.probe, s.retx.is_empty()) {
                (true, _) => 1,
                (_, false) => 2,
                _ => 0,
            })
        }
        Case::Datagram(s) => {
            let mut buf = fed.clone();
            let (p, rest) = datagram::decoder::Packet::decode(DecoderBufferMut::new(&mut buf), (), TAG_LEN).map_err(|e| Violation::new("roundtrip.decode", format!("{:?}", e)))?;
            check_rest(rest.into_less_safe_slice(), "datagram")?;
            eq!(p.wire_len(), len, "wire_len vs announced length");
            let t = p.tag();
            eq!(t.ack_eliciting(), s.necp.is_some(), "tag.ack_eliciting");
            eq!(t.is_connected(), s.pn.is_some(), "tag.is_connected");
            eq!(t.has_application_header(), s.hdr > 0, "tag.has_application_header");
            eq!(t.key_phase(), s2n_quic_dc::crypto::KeyPhase::Zero, "tag.key_phase");
            eq!(p.wire_version(), WireVersion::ZERO, "wire_version");
            eq!(p.credentials().id, sec.id, "credentials.id");
            eq!(p.credentials().key_id.as_u64(), s.key_id, "credentials.key_id");
            eq!(p.source_control_port(), s.port, "source_control_port");
            eq!(p.packet_number().as_u64(), s.pn.unwrap_or(0), "packet_number");
            eq!(p.crypto_nonce(), s.pn.unwrap_or(0), "crypto_nonce");
            eq!(p.next_expected_control_packet().map(|v| v.as_u64()), s.necp, "next_expected_control_packet");
            eq!(p.application_header().to_vec(), app_header(s.hdr), "application_header");
            eq!(p.control_data().to_vec(), ctl_data(if s.necp.is_some() { s.ctl } else { 0 }), "control_data");
            eq!(p.payload().len(), s.payload, "payload length");
            eq!(p.header().len() + p.payload().len() + p.auth_tag().len(), len, "header+payload+tag length");
            let opener = sec.server.application_opener(vi(s.key_id));
            let mut out = vec![0u8; s.payload];
            opener.decrypt(t.key_phase(), p.crypto_nonce(), p.header(), p.payload(), p.auth_tag(), (&mut out[..]).into()).map_err(|e| Violation::new("roundtrip.decrypt", format!("{:?}", e)))?;
            ensure(out == plain(s.pn.unwrap_or(0), s.payload), "roundtrip.payload", || "decrypted datagram payload differs from what was sealed".to_string())?;
            // the tunnelled-datagram receiver (its parser refuses ack-eliciting / app-header packets)
            if s.necp.is_none() && s.hdr == 0 {
                use s2n_quic_dc::datagram::tunneled::recv;
                let mut buf2 = fed.clone();
                let ep = recv::Endpoint::default();
                let (p2, rest2) = ep.parse(&mut buf2).ok_or_else(|| Violation::new("roundtrip.decode", "tunneled::recv::Endpoint::parse returned None"))?;
                check_rest(rest2, "tunnelled datagram")?;
                let mut out2 = vec![0u8; s.payload];
                let mut rx = recv::Receiver::new(sec.server.application_opener(vi(s.key_id)));
                rx.recv_into(&p2, (&mut out2[..]).into(), &global_map().map).map_err(|e| Violation::new("roundtrip.decrypt", format!("recv_into: {:?}", e)))?;
                ensure(out2 == out, "roundtrip.payload", || "tunnelled receiver produced a different payload".to_string())?;
            }
            Ok(3 + s.necp.is_some() as u64)
        }
        Case::Control(s) => {
            let mut buf = fed.clone();
            let (p, rest) = control::decoder::Packet::decode(DecoderBufferMut::new(&mut buf), (), TAG_LEN).map_err(|e| Violation::new("roundtrip.decode", format!("{:?}", e)))?;
            check_rest(rest.into_less_safe_slice(), "control")?;
            eq!(p.total_len(), len, "total_len vs announced length");
            let t = p.tag();
            eq!(t.has_source_queue_id(), s.sqid.is_some(), "tag.has_source_queue_id");
            eq!(t.is_stream(), s.stream.is_some(), "tag.is_stream");
            eq!(t.has_application_header(), s.hdr > 0, "tag.has_application_header");
            eq!(p.wire_version(), WireVersion::ZERO, "wire_version");
            eq!(p.credentials().id, sec.id, "credentials.id");
            eq!(p.credentials().key_id.as_u64(), s.key_id, "credentials.key_id");
            eq!(p.source_queue_id().map(|v| v.as_u64()), s.sqid, "source_queue_id");
            eq!(p.stream_id().map(|i| (i.queue_id().as_u64(), i.is_reliable, i.is_bidirectional)), s.stream, "stream_id");
            eq!(p.packet_number().as_u64(), s.pn, "packet_number");
            eq!(p.application_header().to_vec(), app_header(s.hdr), "application_header");
            eq!(p.control_data().to_vec(), ctl_data(s.ctl), "control_data");
            let (_, opener) = sec.server.control_pair(vi(s.key_id), Initiator::Remote);
            opener.verify(p.header(), p.auth_tag()).map_err(|e| Violation::new("roundtrip.decrypt", format!("verify: {:?}", e)))?;
            Ok(5)
        }
        Case::Secret(s) => {
            ensure(len <= sc::MAX_PACKET_SIZE, "roundtrip.length", || format!("secret control packet of {} bytes exceeds MAX_PACKET_SIZE", len))?;
            let mut buf = fed.clone();
            let (p, rest) = sc::Packet::decode(DecoderBufferMut::new(&mut buf)).map_err(|e| Violation::new("roundtrip.decode", format!("{:?}", e)))?;
            check_rest(rest.into_less_safe_slice(), "secret control")?;
            eq!(*p.credential_id(), sec.id, "credential_id");
            eq!(p.queue_id().map(|v| v.as_u64()), s.qid, "queue_id");
            let opener = sec.server.control_opener();
            let srt = sec.signer.sign(&sec.id);
            match (&s.kind, p) {
                (SecretKind::Ups, sc::Packet::UnknownPathSecret(p)) => {
                    ensure(len <= sc::UnknownPathSecret::MAX_PACKET_SIZE, "roundtrip.length", || "UnknownPathSecret exceeds its MAX_PACKET_SIZE".to_string())?;
                    let v = p.authenticate(&srt).ok_or_else(|| Violation::new("roundtrip.decrypt", "UnknownPathSecret does not authenticate"))?;
                    eq!(*v, sc::UnknownPathSecret { credential_id: sec.id, wire_version: WireVersion::ZERO, queue_id: s.qid.map(vi) }, "UnknownPathSecret");
                    // the kind-specific decoder
                    let mut b2 = fed.clone();
                    let (_, r2) = sc::unknown_path_secret::Packet::decode(DecoderBufferMut::new(&mut b2)).map_err(|e| Violation::new("roundtrip.decode", format!("{:?}", e)))?;
                    check_rest(r2.into_less_safe_slice(), "unknown_path_secret::Packet")?;
                    Ok(6)
                }
                (SecretKind::Stale(k), sc::Packet::StaleKey(p)) => {
                    let v = p.authenticate(&opener).ok_or_else(|| Violation::new("roundtrip.decrypt", "StaleKey does not authenticate"))?;
                    eq!(*v, sc::StaleKey { credential_id: sec.id, wire_version: WireVersion::ZERO, queue_id: s.qid.map(vi), min_key_id: vi(*k) }, "StaleKey");
                    let mut b2 = fed.clone();
                    let (_, r2) = sc::stale_key::Packet::decode(DecoderBufferMut::new(&mut b2)).map_err(|e| Violation::new("roundtrip.decode", format!("{:?}", e)))?;
                    check_rest(r2.into_less_safe_slice(), "stale_key::Packet")?;
                    Ok(7)
                }
                (SecretKind::Replay(k), sc::Packet::ReplayDetected(p)) => {
                    let v = p.authenticate(&opener).ok_or_else(|| Violation::new("roundtrip.decrypt", "ReplayDetected does not authenticate"))?;
                    eq!(*v, sc::ReplayDetected { credential_id: sec.id, wire_version: WireVersion::ZERO, queue_id: s.qid.map(vi), rejected_key_id: vi(*k) }, "ReplayDetected");
                    let mut b2 = fed.clone();
                    let (_, r2) = sc::replay_detected::Packet::decode(DecoderBufferMut::new(&mut b2)).map_err(|e| Violation::new("roundtrip.decode", format!("{:?}", e)))?;
                    check_rest(r2.into_less_safe_slice(), "replay_detected::Packet")?;
                    Ok(8)
                }
                (k, p) => violation("roundtrip.kind", format!("{:?} decoded as {:?}", k, p)),
            }
        }
    }
}

// ------------------------------------------------------------------------------------------
// c18.totality
// ------------------------------------------------------------------------------------------

const SPECIAL: [u8; 9] = [0x00, 0x01, 0x3f, 0x40, 0x7f, 0x80, 0xbf, 0xc0, 0xff];

/// run every decoder entry point on `bytes`; the class folds which of them accepted / how each
/// failed (panics are caught by the caller)
fn decode_all(bytes: &[u8]) -> u64 {
    fn cls<T>(r: Result<T, s2n_codec::DecoderError>) -> u64 {
        match r {
            Ok(_) => 0,
            Err(s2n_codec::DecoderError::UnexpectedEof(_)) => 1,
            Err(s2n_codec::DecoderError::UnexpectedBytes(_)) => 2,
            Err(s2n_codec::DecoderError::LengthCapacityExceeded) => 3,
            Err(s2n_codec::DecoderError::InvariantViolation(m)) => 4 + (m.len() as u64 % 4),
        }
    }
    let mut class = 0u64;
    let mut b = bytes.to_vec();
    class = class * 8 + cls(DecoderBufferMut::new(&mut b).decode_parameterized::<packet::Packet>(TAG_LEN).map(|_| ()));
    let mut b = bytes.to_vec();
    class = class * 8 + cls(stream::decoder::Packet::decode(DecoderBufferMut::new(&mut b), (), TAG_LEN).map(|_| ()));
    let mut b = bytes.to_vec();
    class = class * 8 + cls(datagram::decoder::Packet::decode(DecoderBufferMut::new(&mut b), (), TAG_LEN).map(|_| ()));
    let mut b = bytes.to_vec();
    class = class * 8 + cls(control::decoder::Packet::decode(DecoderBufferMut::new(&mut b), (), TAG_LEN).map(|_| ()));
    let mut b = bytes.to_vec();
    class = class * 8 + cls(sc::Packet::decode(DecoderBufferMut::new(&mut b)).map(|_| ()));
    let mut b = bytes.to_vec();
    class = class * 8 + cls(sc::unknown_path_secret::Packet::decode(DecoderBufferMut::new(&mut b)).map(|_| ()));
    let mut b = bytes.to_vec();
    class = class * 8 + cls(sc::stale_key::Packet::decode(DecoderBufferMut::new(&mut b)).map(|_| ()));
    let mut b = bytes.to_vec();
    class = class * 8 + cls(sc::replay_detected::Packet::decode(DecoderBufferMut::new(&mut b)).map(|_| ()));
    // the decoded views must be usable as well: the tunnelled datagram parser and the control
    // frame iterator of stream / control packets walk attacker-controlled lengths
    let mut b = bytes.to_vec();
    if let Some((p, _)) = s2n_quic_dc::datagram::tunneled::recv::Endpoint::default().parse(&mut b) {
        class ^= p.payload().len() as u64 & 1;
    }
    let mut b = bytes.to_vec();
    if let Ok((mut p, _)) = stream::decoder::Packet::decode(DecoderBufferMut::new(&mut b), (), TAG_LEN) {
        let _ = format!("{:?}", p);
        let _ = p.is_fin();
        for f in p.control_frames_mut() {
            if f.is_err() {
                break;
            }
        }
    }
    let mut b = bytes.to_vec();
    if let Ok((mut p, _)) = control::decoder::Packet::decode(DecoderBufferMut::new(&mut b), (), TAG_LEN) {
        let _ = format!("{:?}", p);
        for f in p.control_frames_mut() {
            if f.is_err() {
                break;
            }
        }
    }
    class
}

/// all byte strings of length <= `max_len`, then for each first byte all strings of length
/// <= `special_len` over SPECIAL; index -> string
struct ByteStrings {
    max_len: usize,
    special_len: usize,
    dense: u64,
    per_first: u64,
}

impl ByteStrings {
    fn new(max_len: usize, special_len: usize) -> ByteStrings {
        let dense = (0..=max_len).map(|k| 256u64.pow(k as u32)).sum();
        let per_first = (0..=special_len).map(|k| 9u64.pow(k as u32)).sum();
        ByteStrings { max_len, special_len, dense, per_first }
    }
    fn count(&self) -> u64 {
        self.dense + 256 * self.per_first
    }
    fn get(&self, mut i: u64) -> Vec<u8> {
        if i < self.dense {
            let mut len = 0usize;
            loop {
                let n = 256u64.pow(len as u32);
                if i < n {
                    break;
                }
                i -= n;
                len += 1;
            }
            debug_assert!(len <= self.max_len);
            let mut v = vec![0u8; len];
            for b in v.iter_mut() {
                *b = (i % 256) as u8;
                i /= 256;
            }
            return v;
        }
        i -= self.dense;
        let first = (i / self.per_first) as u8;
        let mut j = i % self.per_first;
        let mut len = 0usize;
        loop {
            let n = 9u64.pow(len as u32);
            if j < n {
                break;
            }
            j -= n;
            len += 1;
        }
        debug_assert!(len <= self.special_len);
        let mut v = vec![first];
        for _ in 0..len {
            v.push(SPECIAL[(j % 9) as usize]);
            j /= 9;
        }
        v
    }
}

/// valid packets whose every byte gets replaced by every SPECIAL value (and every adjacent pair by
/// three "huge length" patterns): drives the decoders past the credentials into their length logic
fn totality_bases() -> Vec<Case> {
    let mut v = Vec::new();
    for suite in [0u8, 1] {
        v.push(Case::Stream(StreamSpec { suite, sqid: Some(64), fin: Fin::Beyond(5000), hdr: 16, ctl: 16, payload: 100, ..StreamSpec::base() }));
        v.push(Case::Stream(StreamSpec { suite, reliable: false, bidi: false, payload: 0, ..StreamSpec::base() }));
        v.push(Case::Stream(StreamSpec { suite, probe: true, payload: 0, ctl: 1, ..StreamSpec::base() }));
        v.push(Case::Stream(StreamSpec { suite, retx: vec![(true, 12)], payload: 1, ..StreamSpec::base() }));
        v.push(Case::Datagram(DatagramSpec { suite, necp: Some(3), hdr: 16, ctl: 16, ..DatagramSpec::base() }));
        v.push(Case::Datagram(DatagramSpec { suite, pn: None, payload: 0, ..DatagramSpec::base() }));
        v.push(Case::Control(ControlSpec { suite, sqid: Some(16384), hdr: 16, ctl: 16, ..ControlSpec::base() }));
        v.push(Case::Control(ControlSpec { suite, stream: None, ctl: 0, ..ControlSpec::base() }));
        for qid in [None, Some(5), Some(1u64 << 30)] {
            v.push(Case::Secret(SecretSpec { suite, kind: SecretKind::Ups, qid }));
            v.push(Case::Secret(SecretSpec { suite, kind: SecretKind::Stale(5), qid }));
            v.push(Case::Secret(SecretSpec { suite, kind: SecretKind::Replay(1 << 40), qid }));
        }
    }
    v.into_iter().map(Case::normalised).collect()
}

const PAIR_PATTERNS: [[u8; 2]; 3] = [[0xff, 0xff], [0xc0, 0x00], [0xbf, 0xff]];

struct Substitutions {
    bases: Vec<Vec<u8>>,
    starts: Vec<u64>, // prefix sums of per-base case counts
}

impl Substitutions {
    fn new() -> Substitutions {
        let bases: Vec<Vec<u8>> = totality_bases().iter().map(build).collect();
        let mut starts = vec![0u64];
        for b in &bases {
            let n = b.len() as u64 * 9 + (b.len() as u64 - 1) * 3;
            starts.push(starts.last().unwrap() + n);
        }
        Substitutions { bases, starts }
    }
    fn count(&self) -> u64 {
        *self.starts.last().unwrap()
    }
    fn get(&self, i: u64) -> Vec<u8> {
        let b = self.starts.partition_point(|&s| s <= i) - 1;
        let mut j = i - self.starts[b];
        let mut v = self.bases[b].clone();
        let singles = v.len() as u64 * 9;
        if j < singles {
            v[(j / 9) as usize] = SPECIAL[(j % 9) as usize];
        } else {
            j -= singles;
            let pos = (j / 3) as usize;
            let pat = PAIR_PATTERNS[(j % 3) as usize];
            v[pos] = pat[0];
            v[pos + 1] = pat[1];
        }
        v
    }
}

// ------------------------------------------------------------------------------------------
// c18.tamper
// ------------------------------------------------------------------------------------------

#[derive(Clone, Debug, PartialEq)]
enum Mutation {
    /// xor one byte
    Flip { pos: usize, mask: u8 },
    /// keep the first `len` bytes
    Truncate { len: usize },
    /// xor two bytes with 0x01
    Pair { a: usize, b: usize },
    /// exchange two neighbouring bytes
    Swap { pos: usize },
    /// the first `cut` bytes of this packet followed by the rest of its sibling (same keys, same
    /// length, next packet number / other value)
    Splice { cut: usize },
    /// the same packet, naming the same path secret, but sealed / signed with the keys of an
    /// unrelated path secret
    ForeignKey,
}

const MASKS: [u8; 9] = [0x01, 0x02, 0x04, 0x08, 0x10, 0x20, 0x40, 0x80, 0xff];

struct TamperBase {
    case: Case,
    bytes: Vec<u8>,
    sibling: Option<Vec<u8>>,
    plain: Vec<u8>,
    digest: String,
    sibling_digest: Option<String>,
}

fn sibling_of(c: &Case) -> Case {
    match c {
        Case::Stream(s) => {
            let mut s = s.clone();
            s.pn += 1;
            for r in s.retx.iter_mut() {
                r.1 += 1;
            }
            Case::Stream(s)
        }
        Case::Datagram(s) => Case::Datagram(DatagramSpec { pn: Some(s.pn.unwrap_or(0) + 1), ..s.clone() }),
        Case::Control(s) => Case::Control(ControlSpec { pn: s.pn + 1, ..s.clone() }),
        Case::Secret(s) => Case::Secret(SecretSpec {
            kind: match s.kind {
                SecretKind::Ups => SecretKind::Ups,
                SecretKind::Stale(v) => SecretKind::Stale(v + 1),
                SecretKind::Replay(v) => SecretKind::Replay(v + 1),
            },
            qid: s.qid.map(|q| q + 1),
            ..s.clone()
        }),
    }
}

fn tamper_cases(retx: bool) -> Vec<Case> {
    let mut v = Vec::new();
    for suite in [0u8, 1] {
        if retx {
            for &payload in &[0usize, 1, 100] {
                v.push(Case::Stream(StreamSpec { suite, payload, retx: vec![(false, 12)], ..StreamSpec::base() }));
                v.push(Case::Stream(StreamSpec { suite, payload, retx: vec![(true, 12)], fin: Fin::At, ..StreamSpec::base() }));
            }
            continue;
        }
        for &payload in &[0usize, 1, 100] {
            v.push(Case::Stream(StreamSpec { suite, payload, ..StreamSpec::base() }));
            v.push(Case::Stream(StreamSpec { suite, payload, reliable: false, bidi: false, scatter: false, fin: Fin::At, ..StreamSpec::base() }));
            v.push(Case::Stream(StreamSpec { suite, payload, sqid: Some(64), hdr: 16, ctl: 16, fin: Fin::Beyond(5000), key_id: 1 << 32, ..StreamSpec::base() }));
            v.push(Case::Datagram(DatagramSpec { suite, payload, pn: None, ..DatagramSpec::base() }));
            v.push(Case::Datagram(DatagramSpec { suite, payload, ..DatagramSpec::base() }));
            v.push(Case::Datagram(DatagramSpec { suite, payload, necp: Some(3), hdr: 16, ctl: 16, key_id: 1 << 32, ..DatagramSpec::base() }));
        }
        v.push(Case::Stream(StreamSpec { suite, probe: true, ..StreamSpec::base() }));
        v.push(Case::Stream(StreamSpec { suite, probe: true, sqid: Some(64), ctl: 16, reliable: false, ..StreamSpec::base() }));
        for &ctl in &[0usize, 1, 100] {
            v.push(Case::Control(ControlSpec { suite, ctl, ..ControlSpec::base() }));
            v.push(Case::Control(ControlSpec { suite, ctl, stream: None, sqid: Some(64), hdr: 16, key_id: 1 << 32, ..ControlSpec::base() }));
        }
        for qid in [None, Some(5u64), Some(16384)] {
            v.push(Case::Secret(SecretSpec { suite, kind: SecretKind::Ups, qid }));
            v.push(Case::Secret(SecretSpec { suite, kind: SecretKind::Stale(5), qid }));
            v.push(Case::Secret(SecretSpec { suite, kind: SecretKind::Replay(1 << 40), qid }));
        }
    }
    v.into_iter().map(Case::normalised).collect()
}

/// what a receiver acts on; for UnknownPathSecret the queue id is left out: that packet is
/// authenticated by a stateless-reset token bound to the credential id alone (see notes), the
/// queue id is a routing hint and the map acts on the credential id only
fn acted_on(digest: &str) -> String {
    if digest.starts_with("kind=unknown_path_secret") {
        return digest.lines().filter(|l| !l.starts_with("queue_id=")).collect::<Vec<_>>().join("\n");
    }
    digest.to_string()
}

/// names of the digest lines that differ
fn diff_fields(a: &str, b: &str) -> String {
    let (la, lb): (Vec<&str>, Vec<&str>) = (a.lines().collect(), b.lines().collect());
    if la.len() != lb.len() {
        return "structure".into();
    }
    let mut names = Vec::new();
    for (x, y) in la.iter().zip(&lb) {
        if x != y {
            names.push(x.split('=').next().unwrap_or("?").to_string());
        }
    }
    names.join(",")
}

struct TamperSet {
    bases: Vec<TamperBase>,
    muts: Vec<(u32, Mutation)>,
    /// cases per outcome class (filled while checking)
    classes: [std::sync::atomic::AtomicU64; 6],
}

const TAMPER_CLASSES: [&str; 6] = ["x_unused", "x_undecodable", "x_unknown_credentials", "x_authentication_failed", "x_bytes_unchanged", "x_accepted_outside_token_coverage"];

impl TamperSet {
    fn new(retx: bool) -> TamperSet {
        let mut bases = Vec::new();
        let mut muts = Vec::new();
        for case in tamper_cases(retx) {
            let bytes = build(&case);
            let digest = match receive(case.suite(), &bytes, false) {
                Recv::Accepted { digest, consumed } if consumed == bytes.len() => acted_on(&digest),
                other => panic!("tamper base {:?} is not accepted: {:?}", case, other),
            };
            let sib_case = sibling_of(&case);
            let sib = build(&sib_case);
            let (sibling, sibling_digest) = if sib.len() == bytes.len() {
                match receive(case.suite(), &sib, false) {
                    Recv::Accepted { digest, .. } => (Some(sib), Some(acted_on(&digest))),
                    other => panic!("tamper sibling {:?} is not accepted: {:?}", sib_case, other),
                }
            } else {
                (None, None)
            };
            let plain = match &case {
                Case::Stream(s) => plain(s.pn, s.payload),
                Case::Datagram(s) => plain(s.pn.unwrap_or(0), s.payload),
                _ => vec![],
            };
            let bi = bases.len() as u32;
            let l = bytes.len();
            for pos in 0..l {
                for &mask in &MASKS {
                    muts.push((bi, Mutation::Flip { pos, mask }));
                }
            }
            for len in 0..l {
                muts.push((bi, Mutation::Truncate { len }));
            }
            if l <= 72 {
                for a in 0..l {
                    for b in a + 1..l {
                        muts.push((bi, Mutation::Pair { a, b }));
                    }
                }
            } else {
                for a in 0..l - 1 {
                    muts.push((bi, Mutation::Pair { a, b: a + 1 }));
                    if a < l - 1 - a {
                        muts.push((bi, Mutation::Pair { a, b: l - 1 - a }));
                    }
                }
            }
            for pos in 0..l - 1 {
                if bytes[pos] != bytes[pos + 1] {
                    muts.push((bi, Mutation::Swap { pos }));
                }
            }
            if sibling.is_some() {
                for cut in 1..l {
                    muts.push((bi, Mutation::Splice { cut }));
                }
            }
            muts.push((bi, Mutation::ForeignKey));
            bases.push(TamperBase { case, bytes, sibling, plain, digest, sibling_digest });
        }
        TamperSet { bases, muts, classes: Default::default() }
    }

    fn apply(&self, i: u64) -> (&TamperBase, &Mutation, Vec<u8>) {
        let (bi, m) = &self.muts[i as usize];
        let base = &self.bases[*bi as usize];
        let mut v = base.bytes.clone();
        match *m {
            Mutation::Flip { pos, mask } => v[pos] ^= mask,
            Mutation::Truncate { len } => v.truncate(len),
            Mutation::Pair { a, b } => {
                v[a] ^= 1;
                v[b] ^= 1;
            }
            Mutation::Swap { pos } => v.swap(pos, pos + 1),
            Mutation::Splice { cut } => {
                let s = base.sibling.as_ref().unwrap();
                v[cut..].copy_from_slice(&s[cut..]);
            }
            Mutation::ForeignKey => v = build_with(&base.case, true),
        }
        (base, m, v)
    }

    fn describe(&self, i: u64) -> Json {
        let (base, m, v) = self.apply(i);
        case_json(&base.case).set("mutation", format!("{:?}", m)).set("original", hex(&base.bytes)).set("mutated", hex(&v))
    }

    fn check(&self, i: u64) -> Result<u64, Violation> {
        let (base, m, v) = self.apply(i);
        let untouched = v == base.bytes || Some(&v) == base.sibling.as_ref();
        let mut class = 0;
        let mut variants = Vec::new();
        for in_place in [false, true] {
            let r = receive(base.case.suite(), &v, in_place);
            match &r {
                Recv::Undecodable(_) => class = 1,
                Recv::UnknownCredentials => class = 2,
                Recv::Rejected { handed_out, .. } => {
                    class = 3;
                    // a rejected packet hands out no payload bytes
                    let p = &base.plain;
                    let leaked = if p.is_empty() {
                        false
                    } else if p.len() < 4 {
                        handed_out == p
                    } else {
                        p.windows(4).any(|w| handed_out.windows(4).any(|h| h == w))
                    };
                    ensure(!leaked, "tamper.payload_leak", || format!("{:?} was rejected but the receiver's buffer holds cleartext payload bytes afterwards ({})", m, if in_place { "decrypt_in_place" } else { "decrypt" }))?;
                }
                Recv::Accepted { digest, .. } => {
                    let d = acted_on(digest);
                    if untouched {
                        class = 4;
                    } else if d == base.digest || Some(&d) == base.sibling_digest.as_ref() {
                        // accepted although bytes changed, but nothing a receiver acts on differs
                        // (UnknownPathSecret queue id / tag bit, see `acted_on`)
                        ensure(base.case.kind() == "unknown_path_secret", "tamper.accepted_unauthenticated_bytes", || {
                            format!("{:?} on a {} packet is accepted (same content): these bytes are not covered by the authentication tag", m, base.case.kind())
                        })?;
                        class = 5;
                    } else {
                        let fields = diff_fields(&base.digest, &d);
                        let mut v = Violation::new(
                            "tamper.accepted_modified",
                            format!("{:?} on a {} packet is accepted and changes what the receiver acts on: {}\n  original: {}\n  mutated:  {}", m, base.case.kind(), fields, base.digest.replace('\n', " "), d.replace('\n', " ")),
                        );
                        // one finding = (packet kind, mutation, what changed), whatever the field values of the base packet
                        v.fingerprint = format!("seqmc|c18.tamper|tamper.accepted_modified|{}|{:?}|{}", base.case.kind(), m, fields);
                        return Err(v);
                    }
                }
            }
            variants.push(std::mem::discriminant(&r));
        }
        ensure(variants[0] == variants[1], "tamper.decrypt_variants_disagree", || format!("{:?}: decrypt and decrypt_in_place disagree on acceptance", m))?;
        self.classes[class as usize].fetch_add(1, std::sync::atomic::Ordering::Relaxed);
        Ok(class)
    }
}

// ------------------------------------------------------------------------------------------
// c18.map
// ------------------------------------------------------------------------------------------

#[derive(Clone, Debug, PartialEq)]
pub enum MOp {
    /// a dc handshake with peer p (0 = P, 1 = Q) completes: new path secret
    Insert(u8),
    /// the local application seals once towards peer p (consumes a key id)
    Issue(u8),
    /// a genuine secret-control packet from the peer, naming P's first (0) or second (1) secret
    Genuine { kind: u8, target: u8 },
    /// the same packet, authenticated under a different secret / stateless-reset signer
    Foreign { kind: u8 },
    /// a well-formed packet naming a credential id that was never installed
    UnknownId { kind: u8 },
    /// the genuine packet for P's first secret with one byte changed
    Tampered { kind: u8, pos: u8, mask: u8 },
    /// the genuine packet for P's first secret cut short
    Truncated { kind: u8, len: u8 },
}

/// secret-control packet kinds of the alphabet: (kind, queue id)
const MKINDS: [(SecretKind, Option<u64>); 6] =
    [(SecretKind::Ups, None), (SecretKind::Ups, Some(5)), (SecretKind::Stale(0), None), (SecretKind::Stale(5), None), (SecretKind::Stale(1 << 40), Some(5)), (SecretKind::Replay(3), None)];

#[derive(Clone, Debug, Default, PartialEq, Eq, Hash)]
struct MEnt {
    present: bool,
    retired: bool,
    cur: u64,
}

pub struct MapSys {
    env: dcenv::Env,
    suite: u8,
    evict: bool,
    /// 0 = `dc::Endpoint::on_possible_secret_control_packet`, 1 = `Map::handle_unexpected_packet`
    entry_point: u8,
    /// installed secrets: index = peer * 2 + generation
    inst: [Option<dcenv::Installed>; 4],
    model: [Option<MEnt>; 4],
    peers: [Option<u8>; 2],
    handshakes: Vec<std::net::SocketAddr>,
    last: u64,
}

struct Known {
    id: s2n_quic_dc::credentials::Id,
    srt: [u8; 16],
    peer_secret: s2n_quic_dc::path::secret::schedule::Secret,
}

/// what the peer side knows about secret (peer p, generation g) — available before installation
fn known(suite: u8, p: u8, g: u8) -> Known {
    let m = dcenv::material(p, g);
    let peer_secret = s2n_quic_dc::path::secret::schedule::Secret::new(dcenv::suite_of(suite), s2n_quic_core::dc::SUPPORTED_VERSIONS[0], s2n_quic_core::endpoint::Type::Server, &m);
    let id = *peer_secret.id();
    let srt = s2n_quic_dc::path::secret::stateless_reset::Signer::new(b"c18 peer stateless reset secret!").sign(&id);
    Known { id, srt, peer_secret }
}

fn genuine_bytes(suite: u8, kind: u8, p: u8, g: u8) -> Vec<u8> {
    let k = known(suite, p, g);
    let (sk, qid) = &MKINDS[kind as usize];
    build_secret_with(sk, *qid, k.id, &k.peer_secret, &k.srt)
}

impl MapSys {
    pub fn new(suite: u8, evict: bool, entry_point: u8) -> MapSys {
        MapSys { env: dcenv::Env::new(evict), suite, evict, entry_point, inst: [None, None, None, None], model: [None, None, None, None], peers: [None, None], handshakes: vec![], last: 0 }
    }

    fn op_bytes(&self, op: &MOp) -> Vec<u8> {
        match *op {
            MOp::Genuine { kind, target } => genuine_bytes(self.suite, kind, 0, target),
            MOp::Foreign { kind } => {
                // P's id, but HMAC under Q's secret / token from another signer
                let p0 = known(self.suite, 0, 0);
                let q0 = known(self.suite, 1, 0);
                let (sk, qid) = &MKINDS[kind as usize];
                build_secret_with(sk, *qid, p0.id, &q0.peer_secret, &q0.srt)
            }
            MOp::UnknownId { kind } => genuine_bytes(self.suite, kind, 3, 0),
            MOp::Tampered { kind, pos, mask } => {
                let mut b = genuine_bytes(self.suite, kind, 0, 0);
                b[pos as usize] ^= mask;
                b
            }
            MOp::Truncated { kind, len } => {
                let mut b = genuine_bytes(self.suite, kind, 0, 0);
                b.truncate(len as usize);
                b
            }
            _ => unreachable!(),
        }
    }

    /// index of the installed, still present secret with this credential id
    fn lookup(&self, id: &[u8; 16]) -> Option<usize> {
        (0..4).find(|&i| self.model[i].as_ref().map_or(false, |m| m.present) && *self.inst[i].as_ref().unwrap().id == *id)
    }

    fn observe(&self) -> Result<(), Violation> {
        let map = &self.env.map;
        for p in 0..2u8 {
            let c = map.contains(&dcenv::addr_of(p));
            ensure(c == self.peers[p as usize].is_some(), "map.contains", || format!("contains(peer {}) = {}, reference {:?}", p, c, self.peers[p as usize]))?;
        }
        let present = self.model.iter().flatten().filter(|m| m.present).count();
        ensure(map.secrets_len() == present, "map.secrets_len", || format!("secrets_len() = {}, reference {}", map.secrets_len(), present))?;
        let np = self.peers.iter().flatten().count();
        ensure(map.peers_len() == np, "map.peers_len", || format!("peers_len() = {}, reference {}", map.peers_len(), np))?;
        for i in 0..4 {
            if let (Some(inst), Some(m)) = (&self.inst[i], &self.model[i]) {
                let cur = inst.sender_current();
                ensure(cur == m.cur, "map.sender_key_id", || format!("secret {}: the sender's next key id is {}, reference {}", i, cur, m.cur))?;
                let r = inst.entry.retired_at().is_some();
                ensure(r == m.retired, "map.retired", || format!("secret {}: retired = {}, reference {}", i, r, m.retired))?;
            }
        }
        let cb = self.env.counters.handshake_cb.lock().unwrap().clone();
        ensure(cb == self.handshakes, "map.handshake_requests", || format!("handshakes requested so far: {:?}, reference {:?}", cb, self.handshakes))?;
        Ok(())
    }
}

impl Sys for MapSys {
    type Op = MOp;

    fn ops(&self) -> Vec<MOp> {
        let mut ops = Vec::new();
        // P may re-handshake once, Q handshakes once
        if self.inst[0].is_none() || self.inst[1].is_none() {
            ops.push(MOp::Insert(0));
        }
        if self.inst[2].is_none() {
            ops.push(MOp::Insert(1));
        }
        ops.push(MOp::Issue(0));
        let nk = MKINDS.len() as u8;
        for target in 0..2u8 {
            for kind in 0..nk {
                ops.push(MOp::Genuine { kind, target });
            }
        }
        for kind in 0..nk {
            ops.push(MOp::Foreign { kind });
        }
        for kind in 0..nk {
            ops.push(MOp::UnknownId { kind });
        }
        for kind in 0..nk {
            let len = genuine_bytes(self.suite, kind, 0, 0).len() as u8;
            for pos in 0..len {
                for mask in [0x01u8, 0x80] {
                    ops.push(MOp::Tampered { kind, pos, mask });
                }
            }
            // every bit of the tag byte
            for mask in [0x02u8, 0x04, 0x08, 0x10, 0x20, 0x40] {
                ops.push(MOp::Tampered { kind, pos: 0, mask });
            }
            for l in 0..len {
                ops.push(MOp::Truncated { kind, len: l });
            }
        }
        ops
    }

    fn step(&mut self, op: &MOp) -> Result<(), Violation> {
        let before = self.env.counters.snapshot();
        let mut want = before.clone();
        match *op {
            MOp::Insert(p) => {
                let g = if p == 0 && self.inst[0].is_some() { 1 } else { 0 };
                let i = (p * 2 + g) as usize;
                let inst = self.env.handshake(p, g, self.suite);
                let k = known(self.suite, p, g);
                ensure(inst.id == k.id, "map.machinery", || "credential id differs from the peer's derivation".to_string())?;
                self.inst[i] = Some(inst);
                self.model[i] = Some(MEnt { present: true, retired: false, cur: 0 });
                if let Some(old) = self.peers[p as usize] {
                    self.model[(p * 2 + old) as usize].as_mut().unwrap().retired = true;
                    want.replaced += 1;
                }
                self.peers[p as usize] = Some(g);
                want.inserted += 1;
                want.ready += 1;
                self.last = 1;
            }
            MOp::Issue(p) => {
                let got = self.env.map.get_untracked(dcenv::addr_of(p)).map(|peer| peer.seal_once().1);
                match (got, self.peers[p as usize]) {
                    (None, None) => self.last = 2,
                    (Some(creds), Some(g)) => {
                        let i = (p * 2 + g) as usize;
                        let m = self.model[i].as_mut().unwrap();
                        ensure(creds.id == self.inst[i].as_ref().unwrap().id, "map.issue_credentials", || "seal_once used another path secret than the peer's current one".to_string())?;
                        ensure(creds.key_id.as_u64() == m.cur, "map.issue_key_id", || format!("seal_once issued key id {}, reference {}", creds.key_id, m.cur))?;
                        m.cur += 1;
                        self.last = 3;
                    }
                    (got, want) => return violation("map.issue", format!("get_untracked(peer {}) = {:?}, reference has current generation {:?}", p, got.map(|c| c.key_id), want)),
                }
            }
            _ => {
                let bytes = self.op_bytes(op);
                let forged = !matches!(op, MOp::Genuine { .. });
                let mut wire = bytes.clone();
                let from = dcenv::addr_of(0);
                let delivered = timewarp::ahead(3600, || if self.entry_point == 0 { self.env.deliver_control(&mut wire, from) } else { self.env.deliver_unexpected(&mut wire, from) });
                let parsed = ref_parse_secret(&bytes).filter(|r| self.entry_point == 1 || r.len == bytes.len());
                if matches!(op, MOp::Genuine { .. } | MOp::Foreign { .. } | MOp::UnknownId { .. }) {
                    ensure(delivered && parsed.is_some(), "map.machinery", || format!("{:?}: a well-formed packet did not decode (real {}, reference {})", op, delivered, parsed.is_some()))?;
                }
                ensure(delivered == parsed.is_some(), "map.decode_disagreement", || format!("{:?}: the map's decoder {} the bytes {}, the reference reader {}", op, if delivered { "accepted" } else { "refused" }, hex(&bytes), if parsed.is_some() { "accepts them" } else { "refuses them" }))?;
                self.last = 4;
                if let Some(r) = parsed {
                    let ev = |s: &mut dcenv::Snapshot, k: u8, slot: usize| match k {
                        0 => s.ups[slot] += 1,
                        1 => s.stale[slot] += 1,
                        _ => s.replay[slot] += 1,
                    };
                    ev(&mut want, r.kind, 0); // received
                    match self.lookup(&r.id) {
                        None => {
                            ev(&mut want, r.kind, 3); // dropped
                            self.last = 5;
                        }
                        Some(i) => {
                            let (p, g) = ((i / 2) as u8, (i % 2) as u8);
                            let k = known(self.suite, p, g);
                            // authentic = byte-identical to what the holder of the path secret
                            // produces for these fields (UnknownPathSecret: the stateless-reset
                            // token the peer announced for this id)
                            let authentic = match r.kind {
                                0 => r.tag == k.srt,
                                1 => bytes[..r.len] == build_secret_with(&SecretKind::Stale(r.value.unwrap()), r.qid, k.id, &k.peer_secret, &k.srt)[..],
                                _ => bytes[..r.len] == build_secret_with(&SecretKind::Replay(r.value.unwrap()), r.qid, k.id, &k.peer_secret, &k.srt)[..],
                            };
                            if !authentic {
                                ev(&mut want, r.kind, 2); // rejected
                                self.last = 6;
                            } else {
                                ev(&mut want, r.kind, 1); // accepted
                                self.last = 7 + r.kind as u64;
                                let addr = dcenv::addr_of(p);
                                match r.kind {
                                    0 => {
                                        // state.rs: request a handshake with the entry's peer; evict
                                        // (ids map, and the peers map only if it still holds this
                                        // very entry) when configured and the entry is older than 10 s
                                        self.handshakes.push(addr);
                                        want.handshake_requested += 1;
                                        if self.evict {
                                            self.model[i].as_mut().unwrap().present = false;
                                            want.id_evicted += 1;
                                            if self.peers[p as usize] == Some(g) {
                                                self.peers[p as usize] = None;
                                                want.addr_evicted += 1;
                                            }
                                        }
                                    }
                                    1 => {
                                        // sender.rs: "increments the current ID we are sending at to at
                                        // least the ID provided in the packet"
                                        let m = self.model[i].as_mut().unwrap();
                                        m.cur = m.cur.max(r.value.unwrap());
                                    }
                                    _ => {
                                        // state.rs: a replay report makes the map ask for a re-handshake
                                        self.handshakes.push(addr);
                                        want.handshake_requested += 1;
                                    }
                                }
                            }
                        }
                    }
                    // the property's core clause, stated directly: whatever is not authentic under
                    // the secret it names changes nothing (observe() below compares every
                    // observable with the untouched model) and raises only rejected/dropped events
                    if forged && self.last >= 7 {
                        // only reachable for UnknownPathSecret bytes outside the token's coverage
                        ensure(r.kind == 0, "map.machinery", || format!("{:?} classified authentic", op))?;
                    }
                }
            }
        }
        // state first (the more telling clause), then the exact event deltas
        self.observe()?;
        want.handshake_cb = self.handshakes.clone();
        want.stale_accepted = want.stale[1];
        let after = self.env.counters.snapshot();
        ensure(after == want, "map.events", || format!("{:?}: events/counters after the operation {:?}, reference {:?}", op, after, want))
    }

    fn key(&self) -> u128 {
        let mut ents = Vec::new();
        for i in self.inst.iter().flatten() {
            ents.push(dcenv::scrub(&format!("{:?}", i.entry)));
        }
        key128(&(ents, format!("{:?}", self.env.map), self.env.map.contains(&dcenv::addr_of(0)), self.env.map.contains(&dcenv::addr_of(1)), &self.model, self.peers, &self.handshakes))
    }

    fn outcome(&self) -> u64 {
        // a function of the state alone: secrets present / retired / evicted, peers known,
        // handshakes requested, whether any sender counter moved
        let present = self.model.iter().flatten().filter(|m| m.present).count() as u64;
        let evicted = self.model.iter().flatten().filter(|m| !m.present).count() as u64;
        let retired = self.model.iter().flatten().filter(|m| m.retired).count() as u64;
        let moved = self.model.iter().flatten().filter(|m| m.cur > 0).count() as u64;
        present | evicted << 3 | retired << 6 | moved << 9 | (self.handshakes.len() as u64).min(7) << 12 | (self.peers.iter().flatten().count() as u64) << 15
    }
}

// ------------------------------------------------------------------------------------------
// family registry
// ------------------------------------------------------------------------------------------

pub const FAMILIES: &[&str] = &["roundtrip", "totality", "tamper", "map"];

/// `enumerate` artefacts carry `case`/`case_index`; the driver hands `config` to `replay`
fn with_replay_config(mut r: Report, part: &str, tier: Tier) -> Report {
    for v in r.violations.iter_mut() {
        let idx = v.replay.get("case_index").and_then(|c| c.as_i128()).unwrap_or(0);
        v.replay.put("config", Json::obj().set("part", part).set("thorough", tier == Tier::Thorough).set("case_index", idx));
        v.replay.put("history", Json::Arr(vec![]));
    }
    r.extra.push(("config".into(), Json::obj().set("part", part)));
    r
}

fn totality_dims(tier: Tier) -> ByteStrings {
    ByteStrings::new(tier.pick(2, 3), tier.pick(5, 6))
}

const MAP_CONFIGS: [(u8, bool, u8); 4] = [(0, true, 0), (1, false, 0), (1, true, 1), (0, false, 1)];

pub fn run(family: &str, tier: Tier, out: &mut Output) {
    dcenv::quiet_tracing();
    match family {
        "roundtrip" => {
            let grid = roundtrip_grid(tier == Tier::Thorough);
            let r = enumerate("seqmc", "c18.roundtrip", grid.len() as u64, tier.pick(20.0, 200.0), &|i| roundtrip_case(&grid[i as usize]), &|i| case_json(&grid[i as usize]));
            out.push(with_replay_config(r, "grid", tier));
        }
        "totality" => {
            let bs = totality_dims(tier);
            let r = enumerate("seqmc", "c18.totality", bs.count(), tier.pick(20.0, 300.0), &|i| Ok(decode_all(&bs.get(i))), &|i| Json::obj().set("bytes", hex(&bs.get(i))));
            out.push(with_replay_config(r, "strings", tier));
            let subs = Substitutions::new();
            let r = enumerate("seqmc", "c18.totality", subs.count(), 60.0, &|i| Ok(decode_all(&subs.get(i))), &|i| Json::obj().set("bytes", hex(&subs.get(i))));
            out.push(with_replay_config(r, "substitutions", tier));
        }
        "tamper" => {
            for (part, retx) in [("first-transmission", false), ("retransmitted", true)] {
                let set = match guarded("tamper.machinery", || Ok(TamperSet::new(retx))) {
                    Ok(s) => s,
                    Err(v) => {
                        let mut rep = Report::new("seqmc", "c18.tamper");
                        rep.exhaustive = false;
                        rep.violations.push(v);
                        out.push(rep);
                        continue;
                    }
                };
                let mut r = enumerate("seqmc", "c18.tamper", set.muts.len() as u64, tier.pick(20.0, 200.0), &|i| set.check(i), &|i| set.describe(i));
                r.extra.push(("x_base_packets".into(), Json::Int(set.bases.len() as i128)));
                for (i, name) in TAMPER_CLASSES.iter().enumerate().skip(1) {
                    r.extra.push((name.to_string(), Json::Int(set.classes[i].load(std::sync::atomic::Ordering::Relaxed) as i128)));
                }
                out.push(with_replay_config(r, part, tier));
            }
        }
        "map" => {
            let mut rep = Report::new("seqmc", "c18.map");
            let _keep_control_socket_alive = global_map();
            if !timewarp::works() {
                rep.violations.push(Violation::new("map.machinery", "the harness does not own CLOCK_MONOTONIC (clock_gettime interposition inactive)"));
                rep.exhaustive = false;
                out.push(rep);
                return;
            }
            for (suite, evict, entry_point) in MAP_CONFIGS {
                let cfg = Json::obj().set("suite", suite).set("evict", evict).set("entry_point", entry_point);
                out.push(explore("seqmc", "c18.map", cfg, &move || MapSys::new(suite, evict, entry_point), &Limits::depth(tier.pick(4, 6)).wall(tier.pick(20.0, 150.0))));
            }
        }
        _ => panic!("unknown c18 family {}", family),
    }
}

pub fn replay(family: &str, cfg: &Json, hist: &[u16]) -> Result<Vec<String>, (Vec<String>, Violation)> {
    dcenv::quiet_tracing();
    let geti = |k: &str| cfg.get(k).and_then(|v| v.as_i128()).unwrap_or(0);
    let getb = |k: &str| matches!(cfg.get(k), Some(Json::Bool(true)));
    let part = cfg.get("part").and_then(|p| p.as_str()).unwrap_or("").to_string();
    let idx = geti("case_index") as u64;
    let tier = if getb("thorough") { Tier::Thorough } else { Tier::Quick };
    let one = |desc: String, r: Result<u64, Violation>| match r {
        Ok(_) => Ok(vec![desc]),
        Err(v) => Err((vec![desc], v)),
    };
    match family {
        "roundtrip" => {
            let grid = roundtrip_grid(tier == Tier::Thorough);
            let case = &grid[idx as usize];
            one(format!("{:?}", case), guarded("case", || roundtrip_case(case)))
        }
        "totality" => {
            let bytes = if part == "substitutions" { Substitutions::new().get(idx) } else { totality_dims(tier).get(idx) };
            one(hex(&bytes), guarded("case", || Ok(decode_all(&bytes))))
        }
        "tamper" => {
            let set = TamperSet::new(part == "retransmitted");
            one(set.describe(idx).to_string(), guarded("case", || set.check(idx)))
        }
        "map" => {
            let (suite, evict, ep) = (geti("suite") as u8, getb("evict"), geti("entry_point") as u8);
            replay_history(&move || MapSys::new(suite, evict, ep), hist)
        }
        _ => panic!("unknown c18 family {}", family),
    }
}

// C19 (sequential part) — dc: a key ID is accepted at most once and issued at most once.
//
// * `c19.replay`  explicit-state search over the real `path::secret::receiver::State`
//                 (`pre_authentication` + `post_authentication`, the calls `Map::check_dedup` makes)
//                 against a plain reference model (set of accepted ids + maximum).
// * `c19.sender`  explicit-state search over the real sender key-id counter, reached through the
//                 production path only: a `path::secret::Map` entry installed by the real dc
//                 handshake callbacks (`dc::Endpoint::new_path` .. `on_dc_handshake_complete`), ids
//                 issued by `Peer::seal_once` / `Peer::pair`, StaleKey notifications delivered as
//                 genuine, HMAC-signed packets through `Map::handle_control_packet`.
//
// `replay()` re-executes the recorded op-index history (config carries the alphabet name only).
//
// Depends on `crate::c18::dcenv` (deterministic Map / handshake helpers shared with C18).
use crate::c18::dcenv;
use crate::mccore::*;
use s2n_codec::EncoderBuffer;
use s2n_quic_core::varint::VarInt;
use s2n_quic_dc::{
    credentials::{Credentials, Id},
    packet::{secret_control as sc, WireVersion},
    path::secret::{receiver, schedule},
    stream::TransportFeatures,
};
use std::collections::BTreeSet;
use std::panic::{catch_unwind, AssertUnwindSafe};

const VMAX: u64 = (1u64 << 62) - 1; // VarInt::MAX == KeyId::MAX, the reserved id
const WINDOW: u64 = 896; // from the property text

// ------------------------------------------------------------------------------------------
// c19.replay
// ------------------------------------------------------------------------------------------

#[derive(Clone, Debug)]
pub struct Accept(pub u64);

pub struct Replay {
    real: receiver::State,
    accepted: BTreeSet<u64>,
    max: Option<u64>,
    alphabet: Vec<u64>,
}

fn replay_alphabet() -> Vec<u64> {
    let h = (1u64 << 32) + 10;
    let mut a = vec![0, 1, 2];
    a.extend(894..=898);
    a.extend(1790..=1794);
    // window edges far from zero (the index arithmetic is on u64 / usize)
    a.extend([h - WINDOW, h - WINDOW + 1, h]);
    // jumps by an exact multiple of 2^32 (a shift amount held in 32 bits would be 0) and landing a few
    // ids above one (the shift would be those few ids instead of clearing the window)
    a.extend([1u64 << 32, h - 10]);
    a.extend([VMAX - 1 - WINDOW, VMAX - WINDOW, VMAX - 2, VMAX - 1, VMAX]);
    a
}

impl Replay {
    pub fn new() -> Replay {
        Replay { real: receiver::State::new(), accepted: BTreeSet::new(), max: None, alphabet: replay_alphabet() }
    }

    /// the property's acceptance rule for ids other than the reserved maximum
    fn must_accept(&self, id: u64) -> bool {
        if self.accepted.contains(&id) || id == VMAX {
            return false;
        }
        match self.max {
            None => true,
            Some(m) => id > m || m - id < WINDOW,
        }
    }
}

impl Sys for Replay {
    type Op = Accept;
    fn ops(&self) -> Vec<Accept> {
        self.alphabet.iter().map(|&i| Accept(i)).collect()
    }
    fn step(&mut self, op: &Accept) -> Result<(), Violation> {
        let id = op.0;
        let creds = Credentials { id: Id::from([7u8; 16]), key_id: VarInt::new(id).unwrap() };
        let seen = self.accepted.contains(&id);
        let want = self.must_accept(id);

        // the cheap check the map runs before decrypting: it must never turn away an id that the
        // property says is to be accepted
        let pre = self.real.pre_authentication(&creds);
        ensure(!(want && pre.is_err()), "replay.pre_auth_reject", || format!("pre_authentication({}) = {:?} but the id is unseen and inside the window (max={:?})", id, pre, self.max))?;

        let got = self.real.post_authentication(&creds);
        // (1) never Ok twice for the same id
        ensure(!(seen && got.is_ok()), "replay.accepted_twice", || format!("key id {} accepted a second time (max accepted {:?}, {} ids accepted)", id, self.max, self.accepted.len()))?;
        // (2) every unseen id above the maximum or less than 896 below it is accepted
        ensure(!(want && got.is_err()), "replay.window_reject", || format!("unseen key id {} rejected with {:?}; highest accepted id {:?}, window {}", id, got, self.max, WINDOW))?;
        // the error enum documents AlreadyExists as "definitely already exists": it must not be
        // claimed for an id that was never accepted
        ensure(!(got == Err(receiver::Error::AlreadyExists) && !seen), "replay.false_definite", || format!("key id {} reported AlreadyExists but it was never accepted", id))?;
        // What is answered for ids *below* the window (Unknown / AlreadyExists / even Ok for a
        // truly unseen id) is not constrained by the property beyond "at most once", which (1)
        // covers because the model remembers every accepted id forever.  The reserved maximum is
        // excepted from (2) by the property; (1) still applies to it.
        if got.is_ok() {
            self.accepted.insert(id);
            self.max = Some(self.max.map_or(id, |m| m.max(id)));
        }

        // minimum_unseen_key_id() is what a StaleKey packet carries (sender.rs: "a minimum *not yet
        // seen* ID"): the id it names must be one this receiver has not accepted and would accept
        // (so that a sender restarting there makes progress), unless the id space is exhausted.
        let mu = self.real.minimum_unseen_key_id().as_u64();
        if mu != VMAX {
            ensure(!self.accepted.contains(&mu), "replay.min_unseen_seen", || format!("minimum_unseen_key_id()={} was already accepted", mu))?;
            ensure(self.must_accept(mu), "replay.min_unseen_unacceptable", || format!("minimum_unseen_key_id()={} lies below the window (max accepted {:?})", mu, self.max))?;
        }
        // tight form, as documented on the field ("maximum ID we've seen so far" + 1)
        let tight = match self.max {
            None => 0,
            Some(m) => (m + 1).min(VMAX),
        };
        ensure(mu == tight, "replay.min_unseen", || format!("minimum_unseen_key_id()={} reference (max accepted + 1) = {}", mu, tight))?;
        Ok(())
    }
    fn key(&self) -> u128 {
        key128(&(dcenv::scrub(&format!("{:?}", self.real)), &self.accepted, self.max))
    }
    fn outcome(&self) -> u64 {
        // a function of the state alone (BFS may reach a state through several same-depth
        // histories): how many alphabet members are currently new / duplicates / too old
        let (mut fresh, mut dup, mut old) = (0u64, 0u64, 0u64);
        for &id in &self.alphabet {
            if self.accepted.contains(&id) {
                dup += 1;
            } else if self.must_accept(id) {
                fresh += 1;
            } else {
                old += 1;
            }
        }
        fresh * 10_000 + dup * 100 + old
    }
}

// ------------------------------------------------------------------------------------------
// c19.sender
// ------------------------------------------------------------------------------------------

#[derive(Clone, Debug)]
pub enum SOp {
    /// `Map::get_untracked(peer).seal_once()` — the unidirectional sealing path
    IssueUni,
    /// `Map::get_untracked(peer).pair(features)` — the bidirectional (stream) path
    IssueBidi,
    /// `Map::seal_once_id(id)` — the by-id "response" path
    IssueById,
    /// a genuine StaleKey(min_key_id) from the peer, through `Map::handle_control_packet`
    Stale(u64),
}

pub struct Sender {
    env: dcenv::Env,
    inst: dcenv::Installed,
    last_issued: Option<u64>,
    max_stale: u64,
    exhausted: bool,
    ciphertexts: BTreeSet<Vec<u8>>,
}

const PLAIN: [u8; 16] = *b"c19 fixed plain!";
const HDR: [u8; 5] = [1, 2, 3, 4, 5];

impl Sender {
    pub fn new(suite: u8) -> Sender {
        let env = dcenv::Env::new(false);
        let inst = env.handshake(0, 0, suite);
        Sender { env, inst, last_issued: None, max_stale: 0, exhausted: false, ciphertexts: BTreeSet::new() }
    }
    /// lowest id the sender may issue next according to the reference model
    fn floor(&self) -> u64 {
        self.last_issued.map_or(0, |l| l + 1).max(self.max_stale)
    }
    fn on_issued(&mut self, key_id: u64, ct: Vec<u8>, opened_right: bool, opened_wrong: bool) -> Result<(), Violation> {
        // never the same id twice: strictly increasing implies pairwise distinct
        if let Some(l) = self.last_issued {
            ensure(key_id > l, "sender.reissued", || format!("issued key id {} after {} had already been issued", key_id, l))?;
        }
        // sender.rs: StaleKey "increments the current ID we are sending at to at least the ID provided"
        ensure(key_id >= self.max_stale, "sender.below_stale_min", || format!("issued key id {} although the peer announced min_key_id {}", key_id, self.max_stale))?;
        // sender.rs: the counter never reaches the reserved maximum
        ensure(key_id < VMAX, "sender.reserved_id", || format!("issued the reserved key id {}", key_id))?;
        // no key/nonce pair reuse: the same plaintext, packet number and header sealed under every
        // issued key must give pairwise different ciphertexts
        ensure(self.ciphertexts.insert(ct), "sender.key_nonce_reuse", || format!("key id {}: ciphertext of the fixed probe plaintext equals that of an earlier issued key", key_id))?;
        // the key is bound to the id the credentials announce
        ensure(opened_right, "sender.key_id_binding", || format!("the peer's opener for key id {} does not open what the issued sealer sealed", key_id))?;
        ensure(!opened_wrong, "sender.key_id_binding", || format!("the peer's opener for key id {} opens a packet sealed for key id {}", key_id + 1, key_id))?;
        self.last_issued = Some(key_id);
        Ok(())
    }
    fn on_refused(&mut self, what: &str) -> Result<(), Violation> {
        // `next_key_id` documents a panic ("2^62 integer incremented per-path will not wrap") once
        // the counter stands at the last usable value; refusing to issue is not a reuse.  It is only
        // legitimate when the model says the id space is used up.
        ensure(self.floor() >= VMAX - 1, "sender.unexpected_panic", || format!("issuing panicked ({}) although ids from {} are still free", what, self.floor()))?;
        self.exhausted = true;
        Ok(())
    }
}

fn probe_ct<S: s2n_quic_dc::crypto::seal::Application>(s: &S) -> Vec<u8> {
    let mut buf = vec![0u8; PLAIN.len() + s.tag_len()];
    buf[..PLAIN.len()].copy_from_slice(&PLAIN);
    s.encrypt(0, &HDR, None, &mut buf);
    buf
}

fn opens<O: s2n_quic_dc::crypto::open::Application>(o: &O, ct: &[u8]) -> bool {
    let (body, tag) = ct.split_at(ct.len() - 16);
    let mut out = vec![0u8; body.len()];
    let r = o.decrypt(s2n_quic_dc::crypto::KeyPhase::Zero, 0, &HDR, body, tag, (&mut out[..]).into());
    r.is_ok() && out == PLAIN
}

impl Sys for Sender {
    type Op = SOp;
    fn ops(&self) -> Vec<SOp> {
        let cur = self.floor();
        let mut ops = vec![SOp::IssueUni, SOp::IssueBidi, SOp::IssueById];
        let mut vs: Vec<u64> = Vec::new();
        for v in [0, 1, cur.saturating_sub(1), cur, (cur + 5).min(VMAX - 1), VMAX - 1] {
            if !vs.contains(&v) {
                vs.push(v);
            }
        }
        ops.extend(vs.into_iter().map(SOp::Stale));
        ops
    }
    fn step(&mut self, op: &SOp) -> Result<(), Violation> {
        let peer_secret = &self.inst.peer_secret;
        match op {
            SOp::IssueUni | SOp::IssueById => {
                let map = self.env.map.clone();
                let addr = self.inst.addr;
                let id = self.inst.id;
                let by_id = matches!(op, SOp::IssueById);
                let r = catch_unwind(AssertUnwindSafe(|| {
                    if by_id {
                        let (sealer, creds, _) = map.seal_once_id(id).expect("entry present");
                        (probe_ct(&sealer), creds)
                    } else {
                        let (sealer, creds, _) = map.get_untracked(addr).expect("entry present").seal_once();
                        (probe_ct(&sealer), creds)
                    }
                }));
                match r {
                    Err(_) => {
                        self.on_refused("seal_once")?
                    }
                    Ok((ct, creds)) => {
                        ensure(creds.id == self.inst.id, "sender.credentials", || "credentials name another path secret".to_string())?;
                        let k = creds.key_id.as_u64();
                        let right = opens(&peer_secret.application_opener(creds.key_id), &ct);
                        let wrong = opens(&peer_secret.application_opener(VarInt::new(k + 1).unwrap()), &ct);
                        self.on_issued(k, ct, right, wrong)?;
                    }
                }
            }
            SOp::IssueBidi => {
                let map = self.env.map.clone();
                let addr = self.inst.addr;
                let r = catch_unwind(AssertUnwindSafe(|| {
                    let (bidi, _) = map.get_untracked(addr).expect("entry present").pair(&TransportFeatures::UDP);
                    (probe_ct(&bidi.application.sealer), bidi.credentials)
                }));
                match r {
                    Err(_) => {
                        self.on_refused("pair")?
                    }
                    Ok((ct, creds)) => {
                        ensure(creds.id == self.inst.id, "sender.credentials", || "credentials name another path secret".to_string())?;
                        let k = creds.key_id.as_u64();
                        let (_, _, o_right, _) = peer_secret.application_pair(creds.key_id, schedule::Initiator::Remote);
                        let (_, _, o_wrong, _) = peer_secret.application_pair(VarInt::new(k + 1).unwrap(), schedule::Initiator::Remote);
                        let right = opens(&o_right, &ct);
                        let wrong = opens(&o_wrong, &ct);
                        self.on_issued(k, ct, right, wrong)?;
                    }
                }
            }
            SOp::Stale(v) => {
                let pkt = sc::StaleKey { credential_id: self.inst.id, wire_version: WireVersion::ZERO, queue_id: None, min_key_id: VarInt::new(*v).unwrap() };
                let mut buf = [0u8; sc::MAX_PACKET_SIZE];
                let len = pkt.encode(EncoderBuffer::new(&mut buf), &peer_secret.control_sealer());
                let before = self.env.counters.snapshot();
                let delivered = self.env.deliver_control(&mut buf[..len], self.inst.addr);
                let after = self.env.counters.snapshot();
                ensure(delivered, "sender.stale_undecodable", || format!("genuine StaleKey({}) did not decode", v))?;
                ensure(after.stale_accepted == before.stale_accepted + 1, "sender.stale_not_accepted", || format!("genuine StaleKey({}) was not accepted by the map", v))?;
                self.max_stale = self.max_stale.max(*v);
            }
        }
        Ok(())
    }
    fn key(&self) -> u128 {
        key128(&(self.inst.sender_debug(), self.last_issued, self.max_stale, self.exhausted))
    }
    fn outcome(&self) -> u64 {
        // function of the state alone: has issued / has been told a minimum / exhausted / how the
        // counter relates to the announced minimum
        (self.last_issued.is_some() as u64) | (((self.max_stale > 0) as u64) << 1) | ((self.exhausted as u64) << 2) | (((self.last_issued.map_or(0, |l| l + 1) < self.max_stale) as u64) << 3) | (((self.floor() >= VMAX - 1) as u64) << 4)
    }
}

// ------------------------------------------------------------------------------------------
// family registry
// ------------------------------------------------------------------------------------------

pub const FAMILIES: &[&str] = &["replay", "sender"];

pub fn run(family: &str, tier: Tier, out: &mut Output) {
    dcenv::quiet_tracing();
    match family {
        "replay" => {
            let cfg = Json::obj().set("alphabet", replay_alphabet()).set("window", WINDOW);
            out.push(explore("seqmc", "c19.replay", cfg, &Replay::new, &Limits::depth(tier.pick(5, 7)).wall(tier.pick(20.0, 200.0))));
        }
        "sender" => {
            for suite in [0u8, 1] {
                let cfg = Json::obj().set("suite", suite);
                out.push(explore("seqmc", "c19.sender", cfg, &move || Sender::new(suite), &Limits::depth(tier.pick(6, 12)).wall(tier.pick(10.0, 100.0))));
            }
        }
        _ => panic!("unknown c19 family {}", family),
    }
}

pub fn replay(family: &str, cfg: &Json, hist: &[u16]) -> Result<Vec<String>, (Vec<String>, Violation)> {
    dcenv::quiet_tracing();
    match family {
        "replay" => replay_history(&Replay::new, hist),
        "sender" => {
            let suite = cfg.get("suite").and_then(|v| v.as_i128()).unwrap_or(0) as u8;
            replay_history(&move || Sender::new(suite), hist)
        }
        _ => panic!("unknown c19 family {}", family),
    }
}

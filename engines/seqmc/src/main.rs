// seqmc: explicit-state / bounded-exhaustive exploration of s2n-quic components through their
// public APIs.  Usage:
//   seqmc run <family>... --out <result.json>      (tier from VERIF_TIER)
//   seqmc replay <replay.json>                      (exit 1 + message when the violation reproduces)
//   seqmc list
#[path = "../../mccore/mccore.rs"]
pub mod mccore;

mod c05;
mod c06;
mod c08;
mod c10;
mod c14;
mod c15;
mod c16;
mod c17;
mod c18;
mod c19;

use mccore::*;

macro_rules! modules {
    ($($name:ident),*) => {
        fn modules() -> Vec<(&'static str, &'static [&'static str])> {
            vec![$((stringify!($name), $name::FAMILIES)),*]
        }
        fn run_family(full: &str, tier: Tier, out: &mut Output) {
            let (m, f) = full.split_once('.').expect("family is <module>.<name>");
            match m {
                $(stringify!($name) => $name::run(f, tier, out),)*
                _ => panic!("unknown module {}", m),
            }
        }
        fn replay_family(full: &str, replay: &Json) -> Result<Vec<String>, (Vec<String>, Violation)> {
            let (m, f) = full.split_once('.').expect("family is <module>.<name>");
            let hist: Vec<u16> = replay.get("history").and_then(|h| h.as_arr()).map(|a| a.iter().filter_map(|x| x.as_i128()).map(|x| x as u16).collect()).unwrap_or_default();
            // explore-style replays carry `config` + `history`; enumerate-style ones carry `case`
            let cfg = replay.get("config").or(replay.get("case")).cloned().unwrap_or(Json::Null);
            match m {
                $(stringify!($name) => $name::replay(f, &cfg, &hist),)*
                _ => panic!("unknown module {}", m),
            }
        }
    };
}
modules!(c05, c06, c08, c10, c14, c15, c16, c17, c18, c19);

fn main() {
    let args: Vec<String> = std::env::args().skip(1).collect();
    match args.first().map(|s| s.as_str()) {
        Some("list") => {
            for (m, fs) in modules() {
                for f in fs {
                    println!("{}.{}", m, f);
                }
            }
        }
        Some("run") => {
            quiet_panics();
            let tier = Tier::from_env();
            let mut out_path = None;
            let mut fams = Vec::new();
            let mut it = args[1..].iter();
            while let Some(a) = it.next() {
                if a == "--out" {
                    out_path = it.next().cloned();
                } else {
                    fams.push(a.clone());
                }
            }
            let mut out = Output::new();
            for f in &fams {
                if let Some((m, "*")) = f.split_once('.') {
                    for (mm, fs) in modules() {
                        if mm == m {
                            for ff in fs {
                                run_family(&format!("{}.{}", m, ff), tier, &mut out);
                            }
                        }
                    }
                } else {
                    run_family(f, tier, &mut out);
                }
            }
            out.write(&out_path.expect("--out"));
        }
        Some("replay") => {
            let text = std::fs::read_to_string(&args[1]).expect("read replay file");
            let j = Json::parse(&text).expect("parse replay file");
            let fam = j.get("family").and_then(|f| f.as_str()).expect("family").to_string();
            match replay_family(&fam, &j) {
                Ok(trace) => {
                    for t in trace {
                        println!("  {}", t);
                    }
                    println!("replay: no violation");
                }
                Err((trace, v)) => {
                    for t in trace {
                        println!("  {}", t);
                    }
                    println!("replay: VIOLATED {}: {}", v.clause, v.detail);
                    std::process::exit(1);
                }
            }
        }
        _ => {
            eprintln!("usage: seqmc run <family>... --out <file> | replay <file> | list");
            std::process::exit(2);
        }
    }
}

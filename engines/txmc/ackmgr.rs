// txmc / ackmgr.rs  --  property C08, ACK half
//
// "Every ACK frame an endpoint sends acknowledges only packet numbers it has actually received and
//  successfully processed in that packet-number space, and every ack-eliciting packet it processes
//  is acknowledged promptly (within the advertised max_ack_delay plus scheduling granularity,
//  immediately when it arrives out of order) for as long as the endpoint is allowed to send."
//
// Mounted into the unit-test build of s2n-quic-transport by hook H1 (crate-root child module:
// `ack::AckManager`, `processed_packet::ProcessedPacket` and `contexts::testing` are crate-private
// modules of the crate root, which a child module of the root can name).
//
// System: the REAL `ack::AckManager` (ApplicationData space, recommended settings) writing into the
// crate's `MockWriteContext`/`OutgoingFrameBuffer`; the written frames are decoded again with the
// real frame decoder and compared with a plain model (`BTreeMap` of the packet numbers handed to
// `on_processed_packet`, list of the packets the harness "sent").
//
// Calls are made the way the packet-number space makes them:
//   * rx: `on_processed_packet` once per packet number.  The spaces drop duplicates *before*
//     processing (`is_duplicate` / `processed_packet_numbers.insert(..).expect("packet number was
//     already checked")`), so a packet number reaches the manager at most once; a duplicate
//     delivery is therefore a no-op at this level and not part of the alphabet.
//   * an ACK of one of our packets is always carried by a received packet: `on_packet_ack` is
//     followed by the `on_processed_packet` of the carrying packet (the manager relies on it:
//     "`self.transmission_state` will be automatically notified in `on_processed_packet`").  The
//     op `AckOfOurs` is therefore always completed by an `Rx` of a packet number that the peer can
//     have used: larger than everything we had received when the acknowledged packet was sent.
//   * tx: `on_transmit`, optionally another (ack-eliciting) frame, `on_transmit_complete` iff the
//     ACK frame was written - transmission/application.rs.
//
// Clauses:
//   c08.ack_unreceived       an ACK frame names a packet number that was never processed
//   c08.ack_missing          an ACK frame omits a processed packet number although no acknowledged
//                            ACK of ours allows to stop acknowledging it (RFC 9000 13.2.4) and the
//                            range limit is not reached
//   c08.largest              Largest Acknowledged != largest processed packet number
//   c08.ecn_counts           ECN counts of the frame != number of processed packets per marking
//   c08.not_prompt           an ack-eliciting packet is processed and not yet acknowledged, and the
//                            manager neither has transmission interest nor a timer that expires
//                            by the packet's due time (arrival + max_ack_delay; arrival itself
//                            when RFC 9000 13.2.1 asks for an immediate ACK)
//   c08.interest_without_ack the manager has transmission interest, packets wait for an ACK, it is
//                            allowed to send, and `on_transmit` writes no ACK frame
//   step.panic               debug assertions of the repository code
#![allow(dead_code, unused_imports, clippy::all)]

#[path = "/verif/engines/mccore/mccore.rs"]
mod mccore;

use self::mccore::*;
use crate::{
    ack::AckManager,
    contexts::{
        testing::{MockWriteContext, OutgoingFrameBuffer},
        WriteContext,
    },
    endpoint,
    path::{self, path_event},
    processed_packet::ProcessedPacket,
    transmission::{self, interest::Provider as _},
};
use core::time::Duration;
use s2n_quic_core::{
    ack, connection,
    event::{self, testing::Publisher, IntoEvent as _},
    frame::{ack_elicitation::AckElicitation, Frame, Ping},
    inet::{DatagramInfo, ExplicitCongestionNotification},
    packet::number::{PacketNumber, PacketNumberSpace},
    time::{timer::Provider as _, Timestamp},
    varint::VarInt,
};
use std::collections::BTreeMap;
use std::sync::atomic::{AtomicU64, Ordering};

/// RFC 9000 13.2.1 second bullet asks for an immediate ACK when an ack-eliciting packet has "a
/// packet number larger than the highest-numbered ack-eliciting packet that has been received and
/// there are missing packets between that packet and this packet".  s2n-quic decides "in order"
/// relative to the highest *received* packet of any kind, so [rx 0 eliciting, rx 2 non-eliciting,
/// rx 3 eliciting] (1 missing) only arms/keeps the max_ack_delay timer for 3.  With `false` this
/// one situation - the packet is the direct successor of the highest packet received so far, which
/// is not ack-eliciting - is tolerated (the ACK is still sent within max_ack_delay) and counted
/// (`x_gap_hidden_by_non_eliciting`); with `true` it is a `c08.not_prompt` violation.
///
/// The same bullet is missed in a second situation: an acknowledged ACK of ours let the manager
/// drop every stored range (RFC 9000 13.2.4), and the packet that carried that acknowledgement is
/// itself separated by a gap from the highest ack-eliciting packet received before - e.g.
/// [rx 0 eliciting, transmit ACK{0}+PING, peer acks it in packet 2] with 1 missing: with no range
/// left, `on_processed_packet` treats 2 as in order and only arms the max_ack_delay timer.
/// Tolerated and counted (`x_gap_after_prune`) with `false`, `c08.not_prompt` with `true`.
const STRICT_GAP_RULE: bool = false;

const T0_US: u64 = 1_000_000;
const SPACE: PacketNumberSpace = PacketNumberSpace::ApplicationData;

// Evidence counters (never part of a verdict).  `step` records the events of the *current* step in
// `AckSys::tally`; `key()` - called by the explorer exactly once per explored transition, never
// during a rebuild by replay - adds them to the globals, so the totals are reproducible.
static GAP_HIDDEN: AtomicU64 = AtomicU64::new(0);
static GAP_AFTER_PRUNE: AtomicU64 = AtomicU64::new(0);
static PRUNED_UNACKED: AtomicU64 = AtomicU64::new(0);
static FRAMES_CHECKED: AtomicU64 = AtomicU64::new(0);

fn ts(us: u64) -> Timestamp {
    unsafe { Timestamp::from_duration(Duration::from_micros(T0_US + us)) }
}

fn ts_us(t: Timestamp) -> i128 {
    unsafe { t.as_duration() }.as_micros() as i128 - T0_US as i128
}

fn pn(v: u64) -> PacketNumber {
    SPACE.new_packet_number(VarInt::new(v).unwrap())
}

#[derive(Clone, Copy, Debug, PartialEq, Eq, Hash)]
pub enum Cons {
    None,
    CongestionLimited,
    RetransmissionOnly,
}

#[derive(Clone, Debug, PartialEq, Eq, Hash)]
pub enum Op {
    /// a packet is processed: `on_processed_packet`
    Rx { pn: u64, eliciting: bool, ce: bool },
    Tick { us: u64 },
    /// `on_timeout(now)`
    Timeout,
    /// assemble one packet: `on_transmit` (+ a PING as other payload) + `on_transmit_complete`
    Transmit { constraint: Cons, ping: bool },
    /// the peer acknowledges our packet `pn` (which carried an ACK frame): `on_packet_ack`; the next
    /// op is the `Rx` of the packet that carried this acknowledgement
    AckOfOurs { pn: u64 },
    /// our packet `pn` (which carried an ACK frame) is declared lost: `on_packet_loss`
    LossOfOurs { pn: u64 },
}

#[derive(Clone, Debug, Hash)]
struct RxInfo {
    t: u64,
    eliciting: bool,
    ce: bool,
    /// open obligation: an ACK naming this packet must leave by `due`
    due: Option<u64>,
    /// it has been named in at least one written ACK frame
    acked_once: bool,
}

#[derive(Clone, Copy, Debug, PartialEq, Eq, Hash)]
enum TxSt {
    InFlight,
    Acked,
    Lost,
}

#[derive(Clone, Debug, Hash)]
struct Tx {
    pn: u64,
    /// Largest Acknowledged of the ACK frame it carried
    largest: u64,
    /// largest packet number we had received when it was sent
    max_rx_at_send: u64,
    st: TxSt,
}

#[derive(Clone, Debug)]
pub struct Cfg {
    pub pns: u64,
    pub max_tx: usize,
    pub short_ticks: u64,
    /// packet numbers below this may arrive CE-marked
    pub ce_pns: u64,
    /// (ack-eliciting, CE-marked) kinds of received packets
    pub kinds: &'static [(bool, bool)],
    pub constraints: &'static [Cons],
}

impl Cfg {
    fn json(&self, depth: usize, tier: &str) -> Json {
        Json::obj()
            .set("tier", tier)
            .set("depth", depth)
            .set("packet_numbers", self.pns)
            .set("max_transmissions", self.max_tx)
            .set("short_ticks_per_timer", self.short_ticks)
            .set("ce_marked_pns_below", self.ce_pns)
            .set("rx_kinds_eliciting_ce", self.kinds.iter().map(|k| format!("{:?}", k)).collect::<Vec<String>>())
            .set("constraints", self.constraints.iter().map(|c| format!("{:?}", c)).collect::<Vec<String>>())
            .set("strict_gap_rule", STRICT_GAP_RULE)
            .set("settings", "ack::Settings::RECOMMENDED")
    }
}

#[derive(Clone)]
pub struct AckSys {
    cfg: Cfg,
    mgr: AckManager,
    buf: OutgoingFrameBuffer,
    /// only used to fill the `path` field of the events `on_processed_packet` publishes
    path: std::sync::Arc<path::Path<endpoint::testing::Server>>,
    now: u64,
    // ---- model ----
    rx: BTreeMap<u64, RxInfo>,
    ce_count: u64,
    tx: Vec<Tx>,
    /// RFC 9000 13.2.4: largest "Largest Acknowledged" among our ACK frames whose packet the peer
    /// acknowledged - packets <= this need not be acknowledged any more
    prune: Option<u64>,
    /// an `AckOfOurs` is being processed: the carrying packet has a number larger than this
    carry_above: Option<u64>,
    n_frames: u32,
    /// events of the current step: [hidden gaps, gaps after prune, pruned before acked, frames]
    tally: [u64; 4],
}

impl AckSys {
    pub fn new(cfg: Cfg) -> AckSys {
        let mut buf = OutgoingFrameBuffer::new();
        // several frames per packet, packet number advanced by `flush` (as ack/tests/environment.rs)
        buf.set_max_packet_size(Some(1200));
        AckSys {
            cfg,
            mgr: AckManager::new(SPACE, ack::Settings::default()),
            buf,
            path: std::sync::Arc::new(path::testing::helper_path_server()),
            now: 0,
            rx: BTreeMap::new(),
            ce_count: 0,
            tx: Vec::new(),
            prune: None,
            carry_above: None,
            n_frames: 0,
            tally: [0; 4],
        }
    }

    fn max_ack_delay_us(&self) -> u64 {
        ack::Settings::default().max_ack_delay.as_micros() as u64
    }

    fn open_due(&self) -> Option<(u64, u64)> {
        self.rx.iter().filter_map(|(p, i)| i.due.map(|d| (d, *p))).min()
    }

    /// the promptness invariant, evaluated between packets
    fn check_prompt(&self) -> Result<(), Violation> {
        if self.carry_above.is_some() {
            return Ok(());
        }
        let Some((due, p)) = self.open_due() else { return Ok(()) };
        if self.mgr.has_transmission_interest() {
            return Ok(());
        }
        let timer = self.mgr.next_expiration().map(ts_us);
        ensure(timer.map_or(false, |t| t <= due as i128), "c08.not_prompt", || {
            format!(
                "ack-eliciting pn {p} (processed at {} us) must be acknowledged by {due} us; now {} us: no transmission interest and ack timer {:?} us",
                self.rx[&p].t, self.now, timer
            )
        })
    }

    fn do_rx(&mut self, p: u64, eliciting: bool, ce: bool) -> Result<(), Violation> {
        // RFC 9000 13.2.1, evaluated on what was received BEFORE this packet
        let mut immediate = false;
        let mut hidden_gap = false;
        let mut gap_after_prune = false;
        // every packet processed so far may have been dropped from the stored ranges (13.2.4)
        let all_pruned = !self.rx.is_empty() && self.prune.map_or(false, |b| self.rx.keys().all(|q| *q <= b));
        if eliciting {
            let highest_eliciting = self.rx.iter().filter(|(_, i)| i.eliciting).map(|(q, _)| *q).max();
            if let Some(h) = highest_eliciting {
                if p < h {
                    // "a packet number less than another ack-eliciting packet that has been received"
                    immediate = true;
                } else if (h + 1..p).any(|m| !self.rx.contains_key(&m)) {
                    // "larger than the highest-numbered ack-eliciting packet that has been received
                    //  and there are missing packets between that packet and this packet"
                    immediate = true;
                    let highest_any = *self.rx.keys().max().unwrap();
                    if all_pruned {
                        gap_after_prune = true;
                    } else if highest_any + 1 == p && !self.rx[&highest_any].eliciting {
                        hidden_gap = true;
                    }
                }
            }
        }
        if hidden_gap {
            self.tally[0] += 1;
        }
        if gap_after_prune {
            self.tally[1] += 1;
        }
        if (hidden_gap || gap_after_prune) && !STRICT_GAP_RULE {
            immediate = false;
        }

        let datagram = DatagramInfo {
            timestamp: ts(self.now),
            payload_len: 1200,
            ecn: if ce { ExplicitCongestionNotification::Ce } else { ExplicitCongestionNotification::NotEct },
            destination_connection_id: connection::LocalId::TEST_ID,
            destination_connection_id_classification: connection::id::Classification::Local,
            source_connection_id: None,
        };
        let mut packet = ProcessedPacket::new(pn(p), &datagram);
        packet.ack_elicitation = if eliciting { AckElicitation::Eliciting } else { AckElicitation::NonEliciting };
        packet.frames = 1;
        let path = &*self.path;
        let path_id = path::Id::test_id();
        self.mgr.on_processed_packet(&packet, path_event!(path, path_id), &mut Publisher::no_snapshot());

        let due = if eliciting { Some(if immediate { self.now } else { self.now + self.max_ack_delay_us() }) } else { None };
        self.rx.insert(p, RxInfo { t: self.now, eliciting, ce, due, acked_once: false });
        if ce {
            self.ce_count += 1;
        }
        self.carry_above = None;
        self.check_prompt()
    }

    fn do_transmit(&mut self, constraint: Cons, ping: bool) -> Result<(), Violation> {
        let c = match constraint {
            Cons::None => transmission::Constraint::None,
            Cons::CongestionLimited => transmission::Constraint::CongestionLimited,
            Cons::RetransmissionOnly => transmission::Constraint::RetransmissionOnly,
        };
        let interested = self.mgr.has_transmission_interest();
        let waiting = self.open_due();
        let tx_pn;
        let did_send_ack;
        {
            let mut ctx = MockWriteContext::new(ts(self.now), &mut self.buf, c, transmission::Mode::Normal, s2n_quic_core::endpoint::Type::Server);
            did_send_ack = self.mgr.on_transmit(&mut ctx);
            if ping {
                let _ = ctx.write_frame(&Ping);
            }
            if did_send_ack {
                self.mgr.on_transmit_complete(&mut ctx);
            }
            tx_pn = ctx.packet_number().as_u64();
        }
        // decode what was written
        let mut acks = Vec::new();
        while let Some(mut f) = self.buf.pop_front() {
            if let Frame::Ack(a) = f.as_frame() {
                let ranges: Vec<(u64, u64)> = a.ack_ranges().map(|r| (r.start().as_u64(), r.end().as_u64())).collect();
                let ecn = a.ecn_counts.map(|e| (e.ect_0_count.as_u64(), e.ect_1_count.as_u64(), e.ce_count.as_u64()));
                acks.push((a.largest_acknowledged().as_u64(), ranges, ecn));
            }
        }
        self.buf.flush();
        ensure(did_send_ack == (acks.len() == 1), "machinery.frame_capture", || format!("on_transmit returned {did_send_ack} but {} ACK frames were captured", acks.len()))?;

        // "for as long as the endpoint is allowed to send": ACK-only packets are not congestion
        // controlled (RFC 9002 7), so none of the constraints of this alphabet forbids the ACK
        if interested && waiting.is_some() {
            ensure(did_send_ack, "c08.interest_without_ack", || {
                format!("transmission interest and pn {} waiting for an ACK, constraint {:?}: on_transmit wrote no ACK frame", waiting.unwrap().1, constraint)
            })?;
        }

        for (largest, ranges, ecn) in acks {
            self.tally[3] += 1;
            self.n_frames += 1;
            let mut named = std::collections::BTreeSet::new();
            for (a, b) in &ranges {
                for q in *a..=*b {
                    ensure(self.rx.contains_key(&q), "c08.ack_unreceived", || format!("ACK frame ranges {:?} name pn {q}, processed so far: {:?}", ranges, self.rx.keys().collect::<Vec<_>>()))?;
                    named.insert(q);
                }
            }
            for (q, _) in self.rx.iter() {
                let prunable = self.prune.map_or(false, |b| *q <= b);
                ensure(prunable || named.contains(q), "c08.ack_missing", || {
                    format!("ACK frame ranges {:?} omit processed pn {q}; acknowledged-ACK bound (RFC 9000 13.2.4) is {:?}", ranges, self.prune)
                })?;
            }
            let max_rx = *self.rx.keys().max().expect("an ACK frame needs a received packet");
            ensure(largest == max_rx, "c08.largest", || format!("Largest Acknowledged {largest} but the largest processed pn is {max_rx}"))?;
            let want = if self.ce_count == 0 { None } else { Some((0, 0, self.ce_count)) };
            ensure(ecn == want || (want.is_none() && ecn == Some((0, 0, 0))), "c08.ecn_counts", || format!("ECN counts in frame {:?}, processed markings (ect0, ect1, ce) = {:?}", ecn, want))?;
            for q in named {
                let i = self.rx.get_mut(&q).unwrap();
                i.due = None;
                i.acked_once = true;
            }
            self.tx.push(Tx { pn: tx_pn, largest, max_rx_at_send: max_rx, st: TxSt::InFlight });
        }
        self.check_prompt()
    }

    fn do_ack_of_ours(&mut self, p: u64) -> Result<(), Violation> {
        let i = self.tx.iter().position(|t| t.pn == p).expect("enabled for sent packets only");
        self.mgr.on_packet_ack(ts(self.now), &pn(p));
        self.tx[i].st = TxSt::Acked;
        let l = self.tx[i].largest;
        self.prune = Some(self.prune.map_or(l, |b| b.max(l)));
        self.carry_above = Some(self.tx[i].max_rx_at_send);
        // RFC 9000 13.2.4 allows to stop acknowledging everything <= Largest Acknowledged of the
        // acknowledged frame, including packets that arrived late and were never named in a frame
        let b = self.prune.unwrap();
        let mut pruned_unacked = 0;
        for (q, inf) in self.rx.iter_mut() {
            if *q <= b && inf.due.is_some() {
                if !inf.acked_once {
                    pruned_unacked += 1;
                }
                inf.due = None;
            }
        }
        self.tally[2] += pruned_unacked;
        Ok(())
    }

    fn do_loss_of_ours(&mut self, p: u64) -> Result<(), Violation> {
        let i = self.tx.iter().position(|t| t.pn == p).expect("enabled for sent packets only");
        self.mgr.on_packet_loss(&pn(p));
        self.tx[i].st = TxSt::Lost;
        self.check_prompt()
    }
}

impl Sys for AckSys {
    type Op = Op;

    fn ops(&self) -> Vec<Op> {
        let mut v = Vec::new();
        // CE marking is handled independently of the packet number; to keep the quick alphabet
        // small it is offered on the `ce_pns` lowest packet numbers only
        let all_kinds = self.cfg.kinds;
        let plain: Vec<(bool, bool)> = all_kinds.iter().copied().filter(|k| !k.1).collect();
        if let Some(above) = self.carry_above {
            // complete the packet that carried the acknowledgement
            for p in (above + 1)..self.cfg.pns {
                if !self.rx.contains_key(&p) {
                    let kinds: &[(bool, bool)] = if p < self.cfg.ce_pns { all_kinds } else { &plain };
                    for &(eliciting, ce) in kinds {
                        v.push(Op::Rx { pn: p, eliciting, ce });
                    }
                }
            }
            return v;
        }
        for p in 0..self.cfg.pns {
            if !self.rx.contains_key(&p) {
                let kinds: &[(bool, bool)] = if p < self.cfg.ce_pns { all_kinds } else { &plain };
                for &(eliciting, ce) in kinds {
                    v.push(Op::Rx { pn: p, eliciting, ce });
                }
            }
        }
        // Time is observable only through the ack-delay timer (and the ACK Delay field, which the
        // property does not constrain): the clock moves only while the timer is armed and not yet
        // due, `on_timeout` is called only with an armed timer (it is a no-op otherwise).
        let timer = self.mgr.next_expiration().map(ts_us);
        if let Some(t) = timer.filter(|t| *t > self.now as i128) {
            // at most `short_ticks` 1 ms steps per arming of the timer (more of them only shift
            // all times), then the step to/after the deadline
            let since_armed = self.now as i128 - (t - self.max_ack_delay_us() as i128);
            if since_armed < self.cfg.short_ticks as i128 * 1_000 {
                v.push(Op::Tick { us: 1_000 });
            }
            v.push(Op::Tick { us: self.max_ack_delay_us() });
        }
        if timer.is_some() {
            v.push(Op::Timeout);
        }
        if self.tx.len() < self.cfg.max_tx {
            for &constraint in self.cfg.constraints {
                v.push(Op::Transmit { constraint, ping: false });
                if constraint != Cons::CongestionLimited {
                    v.push(Op::Transmit { constraint, ping: true });
                }
            }
        }
        for t in self.tx.iter().filter(|t| t.st == TxSt::InFlight) {
            // the carrying packet needs a fresh number above everything received before `t` was sent
            if ((t.max_rx_at_send + 1)..self.cfg.pns).any(|p| !self.rx.contains_key(&p)) {
                v.push(Op::AckOfOurs { pn: t.pn });
            }
        }
        for t in self.tx.iter().filter(|t| t.st == TxSt::InFlight) {
            v.push(Op::LossOfOurs { pn: t.pn });
        }
        v
    }

    fn step(&mut self, op: &Op) -> Result<(), Violation> {
        self.tally = [0; 4];
        match *op {
            Op::Rx { pn, eliciting, ce } => self.do_rx(pn, eliciting, ce),
            Op::Tick { us } => {
                self.now += us;
                self.check_prompt()
            }
            Op::Timeout => {
                self.mgr.on_timeout(ts(self.now));
                self.check_prompt()
            }
            Op::Transmit { constraint, ping } => self.do_transmit(constraint, ping),
            Op::AckOfOurs { pn } => self.do_ack_of_ours(pn),
            Op::LossOfOurs { pn } => self.do_loss_of_ours(pn),
        }
    }

    fn key(&self) -> u128 {
        // AckManager derives Debug over all fields; IntervalSet prints every interval
        let real = format!("{:?}|{:?}", self.mgr, self.buf);
        for (c, n) in [&GAP_HIDDEN, &GAP_AFTER_PRUNE, &PRUNED_UNACKED, &FRAMES_CHECKED].iter().zip(self.tally) {
            c.fetch_add(n, Ordering::Relaxed);
        }
        key128(&(real, self.now, &self.rx, self.ce_count, &self.tx, self.prune, self.carry_above))
    }

    fn fork(&self) -> Option<Self> {
        Some(self.clone())
    }

    fn outcome(&self) -> u64 {
        let open = self.rx.values().filter(|i| i.due.is_some()).count() as u64;
        (self.n_frames.min(15) as u64) | open << 4 | (self.mgr.has_transmission_interest() as u64) << 8 | (self.mgr.next_expiration().is_some() as u64) << 9 | (self.prune.is_some() as u64) << 10
    }
}

fn cfg_for(tier: Tier) -> (Cfg, usize, f64) {
    let cfg = Cfg {
        pns: 6,
        max_tx: tier.pick(2, 3),
        short_ticks: 1,
        ce_pns: 2,
        kinds: &[(true, false), (false, false), (true, true), (false, true)],
        // RetransmissionOnly and None are the same to the manager (`can_transmit() || can_retransmit()`)
        constraints: &[Cons::None, Cons::CongestionLimited],
    };
    (cfg, tier.pick(6, 7), tier.pick(90.0, 560.0))
}

const FAMILY: &str = "c08.ackmgr";

fn replay(path: &str) {
    let text = std::fs::read_to_string(path).expect("read replay file");
    let j = Json::parse(&text).expect("parse replay file");
    if j.get("family").and_then(|f| f.as_str()) != Some(FAMILY) {
        return;
    }
    let hist: Vec<u16> = j.get("history").and_then(|h| h.as_arr()).map(|a| a.iter().filter_map(|x| x.as_i128()).map(|x| x as u16).collect()).unwrap_or_default();
    let thorough = j.get("config").and_then(|c| c.get("tier")).and_then(|t| t.as_str()) == Some("thorough");
    let (cfg, _, _) = cfg_for(if thorough { Tier::Thorough } else { Tier::Quick });
    quiet_panics();
    let r = replay_history(&|| AckSys::new(cfg.clone()), &hist);
    let _ = std::panic::take_hook();
    match r {
        Ok(trace) => {
            for t in trace {
                println!("replay:   {}", t);
            }
            println!("replay: no violation");
        }
        Err((trace, v)) => {
            for t in trace {
                println!("replay:   {}", t);
            }
            println!("replay: VIOLATED {}: {}", v.clause, v.detail);
        }
    }
}

#[test]
fn txmc_c08_ackmgr() {
    if let Ok(p) = std::env::var("VERIF_REPLAY") {
        replay(&p);
        return;
    }
    let tier = Tier::from_env();
    let (cfg, depth, wall) = cfg_for(tier);
    let mut out = Output::new();
    eprintln!();
    quiet_panics();
    let cj = cfg.json(depth, if tier == Tier::Thorough { "thorough" } else { "quick" });
    let mut rep = explore("txmc", FAMILY, cj, &|| AckSys::new(cfg.clone()), &Limits::depth(depth).wall(wall));
    let _ = std::panic::take_hook();
    rep.extra.push(("x_ack_frames_checked".into(), Json::from(FRAMES_CHECKED.load(Ordering::Relaxed))));
    rep.extra.push(("x_gap_hidden_by_non_eliciting".into(), Json::from(GAP_HIDDEN.load(Ordering::Relaxed))));
    rep.extra.push(("x_gap_after_prune".into(), Json::from(GAP_AFTER_PRUNE.load(Ordering::Relaxed))));
    rep.extra.push(("x_pruned_before_acked".into(), Json::from(PRUNED_UNACKED.load(Ordering::Relaxed))));
    let violations = rep.violations.len();
    out.push(rep);
    if let Ok(dir) = std::env::var("VERIF_OUT_DIR") {
        out.write_named(&dir, "txmc_c08_ackmgr");
    }
    assert_eq!(violations, 0, "C08 violations found (see the report)");
}

// txmc / connection-id area (property C13).
//
// Mounted by hook H1 as `crate::verif_txmc_cid` into the unit-test build of s2n-quic-transport
// (`#[cfg(all(test, aws_s2n_quic_verif))]`), so that it can drive the crate-private
// `LocalIdRegistry`, `PeerIdRegistry` and `ConnectionIdMapper` directly.
//
// Families
//   c13.cid             endpoint A = real LocalIdRegistry registered in a real ConnectionIdMapper
//                       (next to a second, unrelated connection), endpoint B = real PeerIdRegistry
//                       (own mapper). Frames are written by the real `on_transmit`s into the
//                       crate's `MockWriteContext`, travel as encoded bytes through a bag of
//                       packets and are decoded again by the real frame decoder.
//   c13.cid_starved     c13.cid without the environment assumption below: A may be starved of
//                       registration / transmission opportunities for arbitrarily long; only the
//                       clauses starvation cannot excuse are checked (see `CidCfg::starved`).
//   c13.peer_adversary  real PeerIdRegistry fed by a scripted honest issuer; at every reachable
//                       state every adversarial NEW_CONNECTION_ID of the catalogue is tried.
//   c13.pathmgr         the consumer side once more, with the REAL `path::Manager<Server>` around
//                       the real PeerIdRegistry (rebinding / migration schedules, path validation,
//                       Retire Prior To bumps, loss of RETIRE_CONNECTION_ID); closes the blind spot
//                       of the transcribed path-manager glue of c13.cid. See its own header below.
//   c13.pathmgr_timer   the same plus the `Timer` op (PATH_CHALLENGE abandonment and the fallback
//                       to the last validated path).
//
// The oracle is a plain-Rust bookkeeping of what was put on the wire plus rules transcribed from
// RFC 9000 §5.1.1, §5.1.2, §19.15, §19.16 (quoted at each clause). It never asks the registries
// what the expected value is.
//
// Harness glue that is *not* the code under test (and mirrors, line by line, what the real
// callers do):
//   * `connection_impl::on_new_connection_id`: ids are only registered while
//     `connection_id_interest()` is `New(_)`, and only after the handshake is confirmed;
//   * `space::application::handle_new_connection_id_frame` + `path::Manager::on_new_connection_id`:
//     after every NEW_CONNECTION_ID the active path's destination id is replaced by
//     `consume_new_id_for_existing_path` if it is no longer active, and the connection is closed
//     if none is available;
//   * `path::Manager::handle_connection_migration` / `update_active_path`: a new path takes
//     `consume_new_id_for_new_path().unwrap_or(active dcid)`; switching to a path whose id was
//     retired consumes a new one or fails with INTERNAL_ERROR;
//   * `transmission::application::Normal`: RETIRE_CONNECTION_ID frames are only written into
//     packets of the *active* path, i.e. the packet's destination id is that path's id.
//
// Environment assumption (documented in notes/wH.md): endpoint A is never starved of a
// registration + transmission opportunity for `MAX_STALL` (10 s) or longer while it has
// something to send. Without it the timer-driven removal of a retiring id (EXPIRATION_BUFFER =
// 30 s after the retirement request) could precede the very first NEW_CONNECTION_ID that carries
// the request, which says nothing about the registry logic. (Family c13.cid only; c13.cid_starved
// drops the assumption together with the one clause it protects.)
#![allow(clippy::all)]

#[path = "/verif/engines/mccore/mccore.rs"]
mod mccore;
use mccore::*;

use crate::{
    connection::{
        ConnectionIdMapper, InternalConnectionId, InternalConnectionIdGenerator, LocalIdRegistry,
        PeerIdRegistry,
    },
    contexts::testing::{MockWriteContext, OutgoingFrameBuffer},
    transmission::{self, interest::Provider as _},
};
use s2n_codec::{DecoderBufferMut, EncoderBuffer, EncoderValue};
use s2n_quic_core::{
    connection, endpoint, event,
    frame::{self, Frame, FrameMut},
    packet::number::PacketNumber,
    random,
    stateless_reset::{self, token::Generator as _},
    time::{clock::testing as clock, timer::Provider as _, Duration, Timestamp},
    transport,
    varint::VarInt,
};
use std::collections::{BTreeMap, BTreeSet};
use std::sync::atomic::{AtomicU64, Ordering};
use std::sync::Mutex;

const ENGINE: &str = "txmc";

/// round-trip time handed to `on_retire_connection_id`
const RTT: Duration = Duration::from_millis(100);
/// lifetime of an id registered with expiry "soon": the smallest one the public API accepts
const LIFETIME: Duration = connection::id::MIN_LIFETIME;
/// see "Environment assumption" above
const MAX_STALL: Duration = Duration::from_secs(10);

// RFC 9000 §20.1 error codes (transcribed, not taken from the crate)
const FRAME_ENCODING_ERROR: u64 = 0x07;
const CONNECTION_ID_LIMIT_ERROR: u64 = 0x09;
const PROTOCOL_VIOLATION: u64 = 0x0a;
/// what an s2n-quic endpoint advertises as its own active_connection_id_limit
/// (`endpoint/mod.rs` and `endpoint/initial.rs` load `peer_id_registry::ACTIVE_CONNECTION_ID_LIMIT`
/// into the transport parameters; value transcribed here)
const B_ADVERTISED_LIMIT: usize = 3;

/// C13 does not talk about error *codes*; with `false` a MUST-reject case only requires that the
/// frame is rejected and the observed code is reported in `x_reject_codes`. Flip to make a wrong
/// code a violation (`c13.peer_adversary.error_code`).
const STRICT_ERROR_CODES: bool = false;

// measured side information (maxima / sets only, so that the values are schedule independent)
static X_MAX_UNRETIRED_OVER_LIMIT: AtomicU64 = AtomicU64::new(0);
static X_SHOULD_ROUTE_GAP: AtomicU64 = AtomicU64::new(0);
static X_UNDELIVERABLE_RETIRE_PACKETS: AtomicU64 = AtomicU64::new(0);
static X_B_CLOSED: Mutex<BTreeSet<String>> = Mutex::new(BTreeSet::new());
static X_REJECT_CODES: Mutex<BTreeSet<String>> = Mutex::new(BTreeSet::new());

fn lid(bytes: &[u8]) -> connection::LocalId {
    connection::LocalId::try_from_bytes(bytes).expect("valid local id")
}
fn pid(bytes: &[u8]) -> connection::PeerId {
    connection::PeerId::try_from_bytes(bytes).expect("valid peer id")
}
/// deterministic, pairwise distinct connection ids: tag byte + counter
fn make_id(tag: u8, n: u64) -> Vec<u8> {
    let mut v = n.to_be_bytes().to_vec();
    v[0] = tag;
    v
}
/// the crate's test token generator (token = id bytes xor key): distinct ids give distinct tokens
fn make_token(id: &[u8]) -> [u8; 16] {
    stateless_reset::token::testing::Generator().generate(id).into_inner()
}
fn encode_frame<F: EncoderValue>(f: &F) -> Vec<u8> {
    let mut buf = vec![0u8; f.encoding_size()];
    f.encode(&mut EncoderBuffer::new(&mut buf));
    buf
}

#[derive(Clone, Debug, PartialEq, Eq, Hash)]
struct Ncid {
    seq: u64,
    rpt: u64,
    id: Vec<u8>,
    token: [u8; 16],
}

enum Decoded {
    Ncid(Ncid),
    Retire(u64),
    Challenge([u8; 8]),
    Other,
}

/// the receive path of `space::mod::handle_cleartext_payload`: the real frame decoder, decoder
/// errors converted with the real `From<DecoderError> for transport::Error`
fn decode_one(raw: &[u8]) -> Result<Decoded, transport::Error> {
    let mut bytes = raw.to_vec();
    let buffer = DecoderBufferMut::new(&mut bytes[..]);
    let (frame, rest) = buffer.decode::<FrameMut>().map_err(transport::Error::from)?;
    if !rest.is_empty() {
        return Ok(Decoded::Other);
    }
    Ok(match frame {
        Frame::NewConnectionId(f) => Decoded::Ncid(Ncid {
            seq: f.sequence_number.as_u64(),
            rpt: f.retire_prior_to.as_u64(),
            id: f.connection_id.to_vec(),
            token: *f.stateless_reset_token,
        }),
        Frame::RetireConnectionId(f) => Decoded::Retire(f.sequence_number.as_u64()),
        Frame::PathChallenge(f) => Decoded::Challenge(*f.data),
        _ => Decoded::Other,
    })
}

/// endpoint B's handling of one received NEW_CONNECTION_ID: transcription of
/// `handle_new_connection_id_frame` + `path::Manager::on_new_connection_id` around the real
/// `PeerIdRegistry`. `Err((true, e))`: the registry rejected the frame; `Err((false, e))`: the
/// path-manager glue ran out of ids.
fn b_on_ncid(
    b: &mut PeerIdRegistry,
    paths: &mut Vec<connection::PeerId>,
    f: &Ncid,
) -> Result<(), (bool, transport::Error)> {
    let peer_id = connection::PeerId::try_from_bytes(&f.id).expect("length validated by the decoder");
    let seq: u32 = f.seq.try_into().map_err(|_| (true, transport::Error::PROTOCOL_VIOLATION))?;
    let rpt: u32 = f.rpt.try_into().map_err(|_| (true, transport::Error::PROTOCOL_VIOLATION))?;
    let token: stateless_reset::Token = f.token.into();
    b.on_new_connection_id(&peer_id, seq, rpt, &token)
        .map_err(|e| (true, transport::Error::from(e)))?;
    let active = paths[0];
    if !b.is_active(&active) {
        let mut publisher = event::testing::Publisher::no_snapshot();
        match b.consume_new_id_for_existing_path(s2n_quic_core::path::Id::test_id(), active, &mut publisher) {
            Some(id) => paths[0] = id,
            None => {
                return Err((
                    false,
                    transport::Error::PROTOCOL_VIOLATION
                        .with_reason("active path's id retired and no unused id remains"),
                ))
            }
        }
    }
    Ok(())
}

// =============================================================================================
// family c13.cid
// =============================================================================================

#[derive(Clone, Copy, Debug)]
struct CidCfg {
    depth: usize,
    bag_cap: usize,
    limits: &'static [u8],
    /// (A rotates handshake id, B rotates handshake id)
    rotations: &'static [(bool, bool)],
    /// allow a later id to expire before an earlier one (time-varying `Format::lifetime`)
    varlife: bool,
    /// 0 = what RFC 9000 makes a MUST (default, the gate); experimentation only:
    /// 1 = routed until a retirement request has *reached* B, 2 = routed until B's RETIRE arrives
    /// (the SHOULD of §5.1.2)
    route_level: u8,
    /// family c13.cid_starved: A may be denied registration / transmission opportunities for
    /// arbitrarily long (congestion- or amplification-blocked, black-holed connection with a long
    /// idle timeout): `Tick` is never gated by `MAX_STALL`. Only what starvation cannot excuse is
    /// checked then: the routing MUST (`c13.cid.route`) is off, because A removes a retiring id by
    /// timer 30 s after it *decided* to request the retirement and a starved A may not have been
    /// able to put that request on the wire by then (that is an availability consequence of the
    /// starvation, not a fault of the registry); B's path glue ops are left out (they do not
    /// interact with A's timers) to keep the family small.
    starved: bool,
    wall: f64,
}

impl CidCfg {
    fn json(&self) -> Json {
        Json::obj()
            .set("depth", self.depth)
            .set("bag_cap", self.bag_cap)
            .set("limits", self.limits.iter().map(|&l| l as u64).collect::<Vec<u64>>())
            .set(
                "rotations",
                self.rotations.iter().map(|&(a, b)| format!("a={} b={}", a, b)).collect::<Vec<String>>(),
            )
            .set("varlife", self.varlife)
            .set("route_level", self.route_level)
            .set("starved", self.starved)
            .set("max_stall_s", MAX_STALL.as_secs())
    }
}

#[derive(Clone, Debug)]
enum Op {
    /// create both endpoints; peer limit as received in B's transport parameters; handshake
    /// confirmed (registration of further ids is only possible from here on)
    Setup { limit: u8, a_rotate: bool, b_rotate: bool, hs_expiry: bool },
    Register { soon: bool },
    ATransmit { one: bool },
    Deliver(usize),
    AAck(usize),
    ALose(usize),
    BConsumeNewPath,
    BMigrate,
    BTransmit,
    DeliverRetire(usize),
    BAck(usize),
    BLose(usize),
    Tick,
}

struct World {
    mapper_a: ConnectionIdMapper,
    a: LocalIdRegistry,
    a_icid: InternalConnectionId,
    _other: LocalIdRegistry,
    other_icid: InternalConnectionId,
    other_ids: Vec<Vec<u8>>,
    a_buf: OutgoingFrameBuffer,
    _mapper_b: ConnectionIdMapper,
    b: PeerIdRegistry,
    b_buf: OutgoingFrameBuffer,
    /// destination ids of B's paths; [0] is the active path
    b_paths: Vec<connection::PeerId>,
}

#[derive(Clone, Debug, Hash)]
struct Issued {
    id: Vec<u8>,
    token: [u8; 16],
    /// a NEW_CONNECTION_ID carrying it (or the handshake) reached B
    delivered: bool,
    /// A processed a RETIRE_CONNECTION_ID for it
    retire_received: bool,
}

#[derive(Clone, Debug, Hash)]
struct APacket {
    pn: u64,
    raw: Vec<Vec<u8>>,
    delivered: bool,
}

#[derive(Clone, Debug, Hash)]
struct BPacket {
    pn: u64,
    dcid: Vec<u8>,
    raw: Vec<Vec<u8>>,
    /// 0 in flight, 1 delivered to A, 2 dropped by A's endpoint (destination id unknown)
    state: u8,
}

#[derive(Clone, Debug, Hash, Default)]
struct Model {
    /// the peer's active_connection_id_limit as handed to A
    limit: u64,
    /// ids handed to A by the harness, in registration order (index 0 = handshake id)
    registered: Vec<(Vec<u8>, [u8; 16])>,
    /// a registered id without expiry exists (later ids must then not expire either)
    registered_none: bool,
    /// ids A has put on the wire (index = sequence number; 0 = handshake id)
    issued: Vec<Issued>,
    /// largest Retire Prior To A has put on the wire
    max_rpt_sent: u64,
    /// largest Retire Prior To B has received
    b_max_rpt_rx: u64,
    /// sequence numbers B has written a RETIRE_CONNECTION_ID for
    b_retire_written: BTreeSet<u64>,
}

struct CidSys {
    cfg: CidCfg,
    w: Option<World>,
    m: Model,
    a2b: Vec<APacket>,
    b2a: Vec<BPacket>,
    t0: Timestamp,
    now: Timestamp,
    next_id: u64,
    /// since when A continuously has something to register or transmit
    busy_since: Option<Timestamp>,
    b_closed: Option<String>,
    // cached at the end of every step (inside the panic guard)
    a_wants_id: bool,
    a_tx: bool,
    b_tx: bool,
    a_timer: Option<Timestamp>,
}

impl CidSys {
    fn new(cfg: CidCfg) -> CidSys {
        let t0 = clock::now();
        CidSys {
            cfg,
            w: None,
            m: Model::default(),
            a2b: Vec::new(),
            b2a: Vec::new(),
            t0,
            now: t0,
            next_id: 0,
            busy_since: None,
            b_closed: None,
            a_wants_id: false,
            a_tx: false,
            b_tx: false,
            a_timer: None,
        }
    }

    fn fresh_id(&mut self) -> (Vec<u8>, [u8; 16]) {
        let id = make_id(0xA0, self.next_id);
        self.next_id += 1;
        let token = make_token(&id);
        (id, token)
    }

    fn setup(&mut self, limit: u8, a_rotate: bool, b_rotate: bool, hs_expiry: bool) -> Result<(), Violation> {
        let mut rnd = random::testing::Generator(123);
        let mut mapper_a = ConnectionIdMapper::new(&mut rnd, endpoint::Type::Server);
        let mut icids = InternalConnectionIdGenerator::new();
        let other_icid = icids.generate_id();
        let a_icid = icids.generate_id();

        // an unrelated connection on the same endpoint
        let other_ids = vec![make_id(0x0E, 1), make_id(0x0E, 2)];
        let mut other = mapper_a.create_local_id_registry(
            other_icid,
            &lid(&other_ids[0]),
            None,
            make_token(&other_ids[0]).into(),
            false,
        );
        other.set_active_connection_id_limit(3);
        other
            .register_connection_id(&lid(&other_ids[1]), None, make_token(&other_ids[1]).into())
            .map_err(|e| Violation::new("machinery.setup", format!("{:?}", e)))?;

        // endpoint A
        let (id0, token0) = self.fresh_id();
        let hs_exp = if hs_expiry { Some(self.now + LIFETIME) } else { None };
        let mut a = mapper_a.create_local_id_registry(a_icid, &lid(&id0), hs_exp, token0.into(), a_rotate);
        // peer transport parameters are processed during the handshake ...
        a.set_active_connection_id_limit(limit as u64);
        // ... and the handshake is confirmed afterwards
        a.on_handshake_confirmed();

        // endpoint B (learns A's handshake id from the long header, its token from the
        // transport parameters)
        let mut rnd_b = random::testing::Generator(77);
        let mut mapper_b = ConnectionIdMapper::new(&mut rnd_b, endpoint::Type::Client);
        let b_icid = InternalConnectionIdGenerator::new().generate_id();
        let mut b = mapper_b.create_client_peer_id_registry(b_icid, b_rotate);
        b.register_initial_connection_id(pid(&id0));
        b.register_initial_stateless_reset_token(token0.into());

        let mut a_buf = OutgoingFrameBuffer::new();
        a_buf.set_max_packet_size(Some(1200));
        let mut b_buf = OutgoingFrameBuffer::new();
        b_buf.set_max_packet_size(Some(1200));

        self.m.limit = limit as u64;
        self.m.registered.push((id0.clone(), token0));
        self.m.registered_none = !hs_expiry;
        self.m.issued.push(Issued { id: id0.clone(), token: token0, delivered: true, retire_received: false });
        self.w = Some(World {
            mapper_a,
            a,
            a_icid,
            _other: other,
            other_icid,
            other_ids,
            a_buf,
            _mapper_b: mapper_b,
            b,
            b_buf,
            b_paths: vec![pid(&id0)],
        });
        Ok(())
    }

    /// oracle for one packet of NEW_CONNECTION_ID frames written by A
    fn check_a_frames(&mut self, frames: &[Ncid]) -> Result<(), Violation> {
        for f in frames {
            let n = self.m.issued.len() as u64;
            //= RFC 9000 §5.1.1: "The sequence number on each newly issued connection ID MUST
            //= increase by 1."
            if self.cfg.starved && f.seq > n {
                // A starved issuer may have registered an id and withdrawn it again (lifetime
                // timer) before it ever got a chance to send it. On the wire that is
                // indistinguishable from a NEW_CONNECTION_ID that was lost and, being below
                // Retire Prior To by then, rightly never retransmitted (§19.15 expects receivers
                // to cope with exactly that). So a gap is tolerated iff every skipped number was
                // assigned (registered, in order) and this frame already asks to retire it.
                for k in n..f.seq {
                    ensure((k as usize) < self.m.registered.len() && f.rpt > k, "c13.cid.seq_consecutive", || {
                        format!(
                            "first transmission of sequence number {} (retire_prior_to {}) skips {} which was {}",
                            f.seq,
                            f.rpt,
                            k,
                            if (k as usize) < self.m.registered.len() { "never withdrawn" } else { "never assigned" }
                        )
                    })?;
                    let (id, token) = self.m.registered[k as usize].clone();
                    self.m.issued.push(Issued { id, token, delivered: false, retire_received: false });
                }
            }
            let n = self.m.issued.len() as u64;
            ensure(f.seq <= n, "c13.cid.seq_consecutive", || {
                format!("first transmission of sequence number {} while only 0..{} were issued", f.seq, n)
            })?;
            if self.cfg.starved && f.seq == n {
                //= RFC 9000 §5.1.1: "The sequence number on each newly issued connection ID MUST
                //= increase by 1." - the n-th registered id carries sequence number n
                ensure(
                    self.m.registered.get(n as usize).map_or(false, |(id, tok)| *id == f.id && *tok == f.token),
                    "c13.cid.seq_consecutive",
                    || format!("sequence number {} is not carried by the {}-th registered id: {:?}", f.seq, n, f),
                )?;
            }
            if f.seq == n {
                //= RFC 9000 §5.1: "the same connection ID MUST NOT be issued more than once on
                //= the same connection"; property: pairwise distinct ids and reset tokens
                for (s, it) in self.m.issued.iter().enumerate() {
                    ensure(it.id != f.id, "c13.cid.id_distinct", || {
                        format!("sequence numbers {} and {} carry the same connection id {}", s, f.seq, hex(&f.id))
                    })?;
                    ensure(it.token != f.token, "c13.cid.token_distinct", || {
                        format!("sequence numbers {} and {} carry the same stateless reset token {}", s, f.seq, hex(&f.token))
                    })?;
                }
                ensure(
                    self.m.registered.iter().any(|(id, tok)| *id == f.id && *tok == f.token),
                    "c13.cid.frame_content",
                    || format!("NEW_CONNECTION_ID carries an id/token pair that was never registered: {:?}", f),
                )?;
                self.m.issued.push(Issued { id: f.id.clone(), token: f.token, delivered: false, retire_received: false });
            } else {
                // retransmission: identical content (Retire Prior To may have grown)
                let it = &self.m.issued[f.seq as usize];
                ensure(it.id == f.id && it.token == f.token, "c13.cid.seq_reuse", || {
                    format!(
                        "sequence number {} was issued with id {} and is now sent with id {} / token {}",
                        f.seq,
                        hex(&it.id),
                        hex(&f.id),
                        hex(&f.token)
                    )
                })?;
            }
            //= RFC 9000 §19.15: "The value in the Retire Prior To field MUST be less than or
            //= equal to the value in the Sequence Number field."
            ensure(f.rpt <= f.seq, "c13.cid.retire_prior_to", || {
                format!("NEW_CONNECTION_ID seq {} asks to retire prior to {}", f.seq, f.rpt)
            })?;
            self.m.max_rpt_sent = self.m.max_rpt_sent.max(f.rpt);

            //= RFC 9000 §5.1.1: "An endpoint MUST NOT provide more connection IDs than the
            //= peer's limit. An endpoint MAY send connection IDs that temporarily exceed a
            //= peer's limit if the NEW_CONNECTION_ID frame also requires the retirement of any
            //= excess, by including a sufficiently large value in the Retire Prior To field."
            // Worst-case peer: it has received everything issued so far, and has retired only
            // what this frame's Retire Prior To forces it to plus what A has seen RETIREd.
            let unretired: Vec<u64> = (0..self.m.issued.len() as u64)
                .filter(|&s| !self.m.issued[s as usize].retire_received)
                .collect();
            let after_rpt = unretired.iter().filter(|&&s| s >= f.rpt).count() as u64;
            ensure(after_rpt <= self.m.limit, "c13.cid.limit", || {
                format!(
                    "after NEW_CONNECTION_ID(seq {}, retire_prior_to {}) the peer holds {} unretired ids {:?} (>= retire_prior_to) but its active_connection_id_limit is {}",
                    f.seq,
                    f.rpt,
                    after_rpt,
                    unretired.iter().filter(|&&s| s >= f.rpt).collect::<Vec<_>>(),
                    self.m.limit
                )
            })?;
            // the literal reading without the MAY allowance, measured only
            let strict_excess = (unretired.len() as u64).saturating_sub(self.m.limit);
            X_MAX_UNRETIRED_OVER_LIMIT.fetch_max(strict_excess, Ordering::Relaxed);
        }
        Ok(())
    }

    fn a_transmit(&mut self, one: bool) -> Result<(), Violation> {
        let now = self.now;
        let w = self.w.as_mut().unwrap();
        w.a_buf.set_error_write_after_n_frames(if one { 1 } else { usize::MAX });
        {
            let mut ctx = MockWriteContext::new(
                now,
                &mut w.a_buf,
                transmission::Constraint::None,
                transmission::Mode::Normal,
                endpoint::Type::Server,
            );
            w.a.on_transmit(&mut ctx);
        }
        w.a_buf.flush();
        let mut raw = Vec::new();
        let mut pns = BTreeSet::new();
        while let Some(f) = w.a_buf.pop_front() {
            pns.insert(f.packet_nr.as_u64());
            raw.push(f.data);
        }
        if raw.is_empty() {
            return Ok(());
        }
        ensure(pns.len() == 1, "machinery.packetisation", || format!("frames of one transmit in packets {:?}", pns))?;
        let mut frames = Vec::new();
        for r in &raw {
            match decode_one(r) {
                Ok(Decoded::Ncid(f)) => frames.push(f),
                Ok(_) => return violation("c13.cid.frame_content", format!("A wrote an unexpected frame {}", hex(r))),
                // the frame A wrote is not decodable by the real decoder; the decoder enforces
                // Retire Prior To <= Sequence Number and 1 <= length <= 20
                Err(e) => {
                    return violation(
                        "c13.cid.retire_prior_to",
                        format!("frame written by A is rejected by the decoder ({}): {}", e.reason, hex(r)),
                    )
                }
            }
        }
        self.check_a_frames(&frames)?;
        self.a2b.push(APacket { pn: *pns.iter().next().unwrap(), raw, delivered: false });
        Ok(())
    }

    fn deliver(&mut self, i: usize) -> Result<(), Violation> {
        let raw = self.a2b[i].raw.clone();
        self.a2b[i].delivered = true;
        for r in &raw {
            let f = match decode_one(r) {
                Ok(Decoded::Ncid(f)) => f,
                _ => return violation("machinery.decode", "frame no longer decodable"),
            };
            let w = self.w.as_mut().unwrap();
            self.m.b_max_rpt_rx = self.m.b_max_rpt_rx.max(f.rpt);
            self.m.issued[f.seq as usize].delivered = true;
            match b_on_ncid(&mut w.b, &mut w.b_paths, &f) {
                Ok(()) => {}
                Err((true, e)) => {
                    //= RFC 9000 §5.1.2: an endpoint "MAY choose to treat having connection IDs in
                    //= need of retirement that exceed this limit [at least twice the
                    //= active_connection_id_limit] as a connection error of type
                    //= CONNECTION_ID_LIMIT_ERROR" - the only error an honest issuer can provoke
                    // ids B had to retire (below the largest Retire Prior To it received) or
                    // retired on its own, as far as the wire shows; an upper bound of what B
                    // still tracks as "retired, RETIRE not yet acknowledged"
                    let unacked_retired = (0..self.m.issued.len() as u64)
                        .filter(|s| self.m.issued[*s as usize].delivered)
                        .filter(|s| *s < self.m.b_max_rpt_rx || self.m.b_retire_written.contains(s))
                        .count();
                    let allowed = e.code.as_u64() == CONNECTION_ID_LIMIT_ERROR && unacked_retired > 2 * B_ADVERTISED_LIMIT;
                    ensure(allowed, "c13.cid.honest_ncid_rejected", || {
                        format!("B rejected A's frame {:?} with {} ({})", f, e.code, e.reason)
                    })?;
                    self.b_closed = Some(format!("retired-id limit: {}", e.reason));
                    return Ok(());
                }
                Err((false, e)) => {
                    // B spent all spare ids on other paths and closes; not constrained by C13
                    self.b_closed = Some(e.reason.to_string());
                    return Ok(());
                }
            }
        }
        Ok(())
    }

    fn b_transmit(&mut self) -> Result<(), Violation> {
        let now = self.now;
        let w = self.w.as_mut().unwrap();
        {
            let mut ctx = MockWriteContext::new(
                now,
                &mut w.b_buf,
                transmission::Constraint::None,
                transmission::Mode::Normal,
                endpoint::Type::Client,
            );
            w.b.on_transmit(&mut ctx);
        }
        w.b_buf.flush();
        let mut raw = Vec::new();
        let mut pns = BTreeSet::new();
        while let Some(f) = w.b_buf.pop_front() {
            pns.insert(f.packet_nr.as_u64());
            raw.push(f.data);
        }
        if raw.is_empty() {
            return Ok(());
        }
        ensure(pns.len() == 1, "machinery.packetisation", || format!("frames of one transmit in packets {:?}", pns))?;
        // RETIRE_CONNECTION_ID frames travel in Normal-mode packets, i.e. on the active path
        let dcid = w.b_paths[0].as_bytes().to_vec();
        for r in &raw {
            let seq = match decode_one(r) {
                Ok(Decoded::Retire(s)) => s,
                _ => return violation("c13.cid.frame_content", format!("B wrote an unexpected frame {}", hex(r))),
            };
            //= property: "it only retires peer IDs the peer actually issued"
            //= RFC 9000 §19.16: a sequence number "greater than any previously sent to the peer"
            //= is a PROTOCOL_VIOLATION
            let known = self.m.issued.get(seq as usize).map_or(false, |it| it.delivered);
            ensure(known, "c13.cid.retire_unissued", || {
                format!("B retires sequence number {} which A never delivered (issued: 0..{})", seq, self.m.issued.len())
            })?;
            //= RFC 9000 §19.16: "The sequence number specified in a RETIRE_CONNECTION_ID frame
            //= MUST NOT refer to the Destination Connection ID field of the packet in which the
            //= frame is contained."
            ensure(self.m.issued[seq as usize].id != dcid, "c13.cid.retire_own_dcid", || {
                format!("RETIRE_CONNECTION_ID({}) sent in a packet addressed to that very id {}", seq, hex(&dcid))
            })?;
            self.m.b_retire_written.insert(seq);
        }
        self.b2a.push(BPacket { pn: *pns.iter().next().unwrap(), dcid, raw, state: 0 });
        Ok(())
    }

    fn deliver_retire(&mut self, i: usize) -> Result<(), Violation> {
        let now = self.now;
        let p = self.b2a[i].clone();
        let w = self.w.as_mut().unwrap();
        // the endpoint routes the datagram by its destination connection id
        match w.mapper_a.lookup_internal_connection_id(&lid(&p.dcid)) {
            Some((icid, _)) if icid == w.a_icid => {}
            Some((icid, _)) => {
                return violation(
                    "c13.cid.misroute",
                    format!("datagram addressed to A's id {} is delivered to connection {:?}", hex(&p.dcid), icid),
                )
            }
            None => {
                // not (or no longer) routable: A's endpoint drops it. Whether that was allowed
                // is decided by the routing clause in `check_routes`.
                self.b2a[i].state = 2;
                X_UNDELIVERABLE_RETIRE_PACKETS.fetch_max(1, Ordering::Relaxed);
                return Ok(());
            }
        }
        self.b2a[i].state = 1;
        for r in &p.raw {
            let seq = match decode_one(r) {
                Ok(Decoded::Retire(s)) => s,
                _ => return violation("machinery.decode", "frame no longer decodable"),
            };
            // transcription of `handle_retire_connection_id_frame`
            let seq32: u32 = seq.try_into().map_err(|_| Violation::new("machinery.decode", "seq > u32"))?;
            let r = w.a.on_retire_connection_id(seq32, &lid(&p.dcid), RTT, now);
            ensure(r.is_ok(), "c13.cid.honest_retire_rejected", || {
                format!("A answered B's RETIRE_CONNECTION_ID({}) in a packet addressed to {} with {:?}", seq, hex(&p.dcid), r)
            })?;
            self.m.issued[seq as usize].retire_received = true;
        }
        Ok(())
    }

    /// ids B may address packets to.
    //= RFC 9000 §5.1.2: "Sending a RETIRE_CONNECTION_ID frame indicates that the connection ID
    //= will not be used again"; "Upon receipt of an increased Retire Prior To field, the peer
    //= MUST stop using the corresponding connection IDs"
    // A datagram addressed to such an id need not be routed any more (see `check_routes`), so a
    // B that keeps using one breaks the routing half of C13 from the other side.
    fn check_b_uses(&self, what: &str, id: &[u8]) -> Result<(), Violation> {
        let dseq = self.m.issued.iter().position(|it| it.id == id);
        let ok = match dseq {
            Some(s) => {
                self.m.issued[s].delivered
                    && !self.m.b_retire_written.contains(&(s as u64))
                    && (s as u64) >= self.m.b_max_rpt_rx
            }
            None => false,
        };
        ensure(ok, "c13.cid.b_uses_retired", || {
            format!(
                "{}: B uses {} (seq {:?}); retired by B: {:?}, largest retire_prior_to received {}",
                what,
                hex(id),
                dseq,
                self.m.b_retire_written,
                self.m.b_max_rpt_rx
            )
        })
    }

    /// the routing clause, evaluated after every step
    fn check_routes(&self) -> Result<(), Violation> {
        let w = self.w.as_ref().unwrap();
        let mut gap = 0u64;
        for (seq, it) in self.m.issued.iter().enumerate() {
            match w.mapper_a.lookup_internal_connection_id(&lid(&it.id)) {
                Some((icid, _)) if icid == w.a_icid => {}
                Some((icid, _)) => {
                    return violation(
                        "c13.cid.misroute",
                        format!("id {} (seq {}) of A is mapped to connection {:?}", hex(&it.id), seq, icid),
                    )
                }
                None => {
                    //= RFC 9000 §5.1.1: "When an endpoint issues a connection ID, it MUST accept
                    //= packets that carry this connection ID for the duration of the connection
                    //= or until its peer invalidates the connection ID via a
                    //= RETIRE_CONNECTION_ID frame"
                    //= RFC 9000 §5.1.2: "Such an endpoint can cause its peer to retire connection
                    //= IDs by sending a NEW_CONNECTION_ID frame with an increased Retire Prior To
                    //= field. The endpoint SHOULD continue to accept the previously issued
                    //= connection IDs until they are retired by the peer."
                    // MUST: no RETIRE received and no retirement request sent => routed.
                    // After a request was put on the wire only the SHOULD applies (measured).
                    if !it.retire_received && !self.cfg.starved {
                        ensure((seq as u64) < self.m.max_rpt_sent, "c13.cid.route", || {
                            format!(
                                "id {} (seq {}) is no longer routed to A although B has not retired it and A never sent a Retire Prior To above it (largest sent: {})",
                                hex(&it.id),
                                seq,
                                self.m.max_rpt_sent
                            )
                        })?;
                        gap += 1;
                        // stricter readings, only on request (VERIF_CID_ROUTE_LEVEL)
                        let strict_ok = match self.cfg.route_level {
                            0 => true,
                            1 => (seq as u64) < self.m.b_max_rpt_rx,
                            _ => false,
                        };
                        ensure(strict_ok, "c13.cid.route_should", || {
                            format!(
                                "id {} (seq {}) is no longer routed to A; B has not retired it; largest Retire Prior To sent {}, received by B {}",
                                hex(&it.id),
                                seq,
                                self.m.max_rpt_sent,
                                self.m.b_max_rpt_rx
                            )
                        })?;
                    }
                }
            }
        }
        X_SHOULD_ROUTE_GAP.fetch_max(gap, Ordering::Relaxed);
        // registered but not yet issued ids must at least not point elsewhere
        for (id, _) in &self.m.registered {
            if let Some((icid, _)) = w.mapper_a.lookup_internal_connection_id(&lid(id)) {
                ensure(icid == w.a_icid, "c13.cid.misroute", || format!("id {} of A is mapped to {:?}", hex(id), icid))?;
            }
        }
        // the unrelated connection is untouched by anything A or B do
        for id in &w.other_ids {
            let r = w.mapper_a.lookup_internal_connection_id(&lid(id));
            ensure(matches!(r, Some((icid, _)) if icid == w.other_icid), "c13.cid.route_other", || {
                format!("id {} of the other connection now resolves to {:?}", hex(id), r)
            })?;
        }
        Ok(())
    }

    fn refresh(&mut self) {
        let w = self.w.as_ref().unwrap();
        self.a_wants_id = w.a.connection_id_interest() != connection::id::Interest::None;
        self.a_tx = w.a.has_transmission_interest();
        self.b_tx = w.b.has_transmission_interest();
        self.a_timer = w.a.next_expiration();
        let busy = self.a_wants_id || self.a_tx;
        self.busy_since = if busy && !self.cfg.starved { Some(self.busy_since.unwrap_or(self.now)) } else { None };
    }
}

impl Sys for CidSys {
    type Op = Op;

    fn ops(&self) -> Vec<Op> {
        let mut v = Vec::new();
        if self.w.is_none() {
            for &limit in self.cfg.limits {
                for &(a_rotate, b_rotate) in self.cfg.rotations {
                    for hs_expiry in [false, true] {
                        v.push(Op::Setup { limit, a_rotate, b_rotate, hs_expiry });
                    }
                }
            }
            return v;
        }
        if self.b_closed.is_some() {
            return v;
        }
        let w = self.w.as_ref().unwrap();
        if self.a_wants_id {
            v.push(Op::Register { soon: false });
            // constant `Format::lifetime()`: expiries are monotone in the sequence number
            if self.cfg.varlife || !self.m.registered_none {
                v.push(Op::Register { soon: true });
            }
        }
        if self.a_tx && self.a2b.len() < self.cfg.bag_cap {
            v.push(Op::ATransmit { one: false });
            v.push(Op::ATransmit { one: true });
        }
        for (i, p) in self.a2b.iter().enumerate() {
            if !p.delivered {
                v.push(Op::Deliver(i));
            }
        }
        for (i, p) in self.a2b.iter().enumerate() {
            if p.delivered {
                v.push(Op::AAck(i));
            }
        }
        for i in 0..self.a2b.len() {
            v.push(Op::ALose(i));
        }
        if self.cfg.starved {
            // see `CidCfg::starved`
        } else if w.b_paths.len() < 2 {
            v.push(Op::BConsumeNewPath);
        } else {
            v.push(Op::BMigrate);
        }
        if self.b_tx && self.b2a.len() < self.cfg.bag_cap {
            v.push(Op::BTransmit);
        }
        for (i, p) in self.b2a.iter().enumerate() {
            if p.state == 0 {
                v.push(Op::DeliverRetire(i));
            }
        }
        for (i, p) in self.b2a.iter().enumerate() {
            if p.state == 1 {
                v.push(Op::BAck(i));
            }
        }
        for i in 0..self.b2a.len() {
            v.push(Op::BLose(i));
        }
        if let Some(t) = self.a_timer {
            let target = t.max(self.now);
            let stalled = self.busy_since.map_or(false, |b| target.saturating_duration_since(b) >= MAX_STALL);
            if !stalled || self.cfg.starved {
                v.push(Op::Tick);
            }
        }
        v
    }

    fn step(&mut self, op: &Op) -> Result<(), Violation> {
        match op {
            Op::Setup { limit, a_rotate, b_rotate, hs_expiry } => self.setup(*limit, *a_rotate, *b_rotate, *hs_expiry)?,
            Op::Register { soon } => {
                let (id, token) = self.fresh_id();
                let exp = if *soon { Some(self.now + LIFETIME) } else { None };
                let w = self.w.as_mut().unwrap();
                let r = w.a.register_connection_id(&lid(&id), exp, token.into());
                ensure(r.is_ok(), "c13.cid.register", || format!("registering the fresh id {} failed: {:?}", hex(&id), r))?;
                self.m.registered.push((id, token));
                self.m.registered_none |= !*soon;
            }
            Op::ATransmit { one } => self.a_transmit(*one)?,
            Op::Deliver(i) => self.deliver(*i)?,
            Op::AAck(i) => {
                let p = self.a2b.remove(*i);
                let pn = pn_of(p.pn);
                self.w.as_mut().unwrap().a.on_packet_ack(&pn);
            }
            Op::ALose(i) => {
                let p = self.a2b.remove(*i);
                let pn = pn_of(p.pn);
                self.w.as_mut().unwrap().a.on_packet_loss(&pn);
            }
            Op::BConsumeNewPath => {
                let w = self.w.as_mut().unwrap();
                let id = w.b.consume_new_id_for_new_path().unwrap_or(w.b_paths[0]);
                w.b_paths.push(id);
                // the new path is probed (PATH_CHALLENGE) with this destination id right away
                self.check_b_uses("new path", id.as_bytes())?;
            }
            Op::BMigrate => {
                // `update_active_path`
                let w = self.w.as_mut().unwrap();
                let mut id = w.b_paths[1];
                if !w.b.is_active(&id) {
                    let mut publisher = event::testing::Publisher::no_snapshot();
                    match w.b.consume_new_id_for_existing_path(s2n_quic_core::path::Id::test_id(), id, &mut publisher) {
                        Some(n) => id = n,
                        None => {
                            self.b_closed = Some("migration without an unused id (INTERNAL_ERROR)".into());
                        }
                    }
                }
                if self.b_closed.is_none() {
                    w.b_paths[1] = id;
                    w.b_paths.swap(0, 1);
                }
            }
            Op::BTransmit => self.b_transmit()?,
            Op::DeliverRetire(i) => self.deliver_retire(*i)?,
            Op::BAck(i) => {
                let p = self.b2a.remove(*i);
                let pn = pn_of(p.pn);
                self.w.as_mut().unwrap().b.on_packet_ack(&pn);
            }
            Op::BLose(i) => {
                let p = self.b2a.remove(*i);
                let pn = pn_of(p.pn);
                self.w.as_mut().unwrap().b.on_packet_loss(&pn);
            }
            Op::Tick => {
                let t = self.a_timer.expect("tick only when armed").max(self.now);
                self.now = t;
                self.w.as_mut().unwrap().a.on_timeout(t);
            }
        }
        if let Some(r) = &self.b_closed {
            X_B_CLOSED.lock().unwrap().insert(r.clone());
        }
        self.refresh();
        if self.b_closed.is_none() {
            // B may send a packet on its active path at any time
            let dcid = self.w.as_ref().unwrap().b_paths[0];
            self.check_b_uses("active path", dcid.as_bytes())?;
        }
        self.check_routes()
    }

    fn key(&self) -> u128 {
        let Some(w) = self.w.as_ref() else { return 0 };
        // Debug of a registry = internal id, the *whole* mapper state behind the Arc (hash maps
        // of both connections), then the registry's own fields. Only the latter are state of
        // the registry; the mapper content relevant here is a function of them and is observed
        // through lookups by the oracle.
        let a = format!("{:?}", w.a);
        let b = format!("{:?}", w.b);
        let a_own = a.find("registered_ids").map(|i| &a[i..]).unwrap_or(&a);
        let b_own = b.find("registered_ids").map(|i| &b[i..]).unwrap_or(&b);
        let routed: Vec<bool> = self
            .m
            .registered
            .iter()
            .map(|(id, _)| w.mapper_a.lookup_internal_connection_id(&lid(id)).is_some())
            .collect();
        key128(&(
            a_own,
            b_own,
            routed,
            &w.b_paths.iter().map(|p| p.as_bytes().to_vec()).collect::<Vec<_>>(),
            &self.a2b,
            &self.b2a,
            &self.m,
            self.now.saturating_duration_since(self.t0),
            self.busy_since.map(|b| b.saturating_duration_since(self.t0)),
            &self.b_closed,
        ))
    }

    fn outcome(&self) -> u64 {
        let retired = self.m.issued.iter().filter(|i| i.retire_received).count() as u64;
        let unrouted = match self.w.as_ref() {
            Some(w) => self
                .m
                .issued
                .iter()
                .filter(|it| w.mapper_a.lookup_internal_connection_id(&lid(&it.id)).is_none())
                .count() as u64,
            None => 0,
        };
        (self.m.issued.len() as u64)
            | retired << 8
            | (self.m.b_retire_written.len() as u64) << 16
            | unrouted << 24
            | (self.b_closed.is_some() as u64) << 32
            | self.m.max_rpt_sent << 40
    }
}

fn pn_of(pn: u64) -> PacketNumber {
    s2n_quic_core::packet::number::PacketNumberSpace::ApplicationData.new_packet_number(VarInt::new(pn).unwrap())
}

fn cid_cfg(tier: Tier, starved: bool) -> CidCfg {
    let varlife = std::env::var("VERIF_CID_VARLIFE").map_or(false, |v| v == "1");
    let mut cfg = if starved { cid_cfg_starved(tier, varlife) } else { cid_cfg_tier(tier, varlife) };
    cfg.route_level = std::env::var("VERIF_CID_ROUTE_LEVEL").ok().and_then(|d| d.parse().ok()).unwrap_or(0);
    // experimentation only (not set by /verif/check)
    if let Some(d) = std::env::var("VERIF_CID_DEPTH").ok().and_then(|d| d.parse().ok()) {
        cfg.depth = d;
    }
    cfg
}

fn cid_cfg_tier(tier: Tier, varlife: bool) -> CidCfg {
    match tier {
        Tier::Quick => CidCfg {
            depth: 10,
            bag_cap: 3,
            limits: &[2, 3, 4],
            rotations: &[(true, true), (false, false), (true, false), (false, true)],
            varlife,
            route_level: 0,
            starved: false,
            wall: 55.0,
        },
        Tier::Thorough => CidCfg {
            depth: 13,
            bag_cap: 3,
            limits: &[2, 3, 4],
            rotations: &[(true, true), (false, false), (true, false), (false, true)],
            varlife,
            route_level: 0,
            starved: false,
            wall: 570.0,
        },
    }
}

/// bounds of family c13.cid_starved (see `CidCfg::starved`)
fn cid_cfg_starved(tier: Tier, varlife: bool) -> CidCfg {
    CidCfg {
        depth: tier.pick(10, 13),
        bag_cap: 3,
        limits: &[2, 3, 4],
        rotations: &[(true, true), (false, false), (true, false), (false, true)],
        varlife,
        route_level: 0,
        starved: true,
        wall: tier.pick(25.0, 300.0),
    }
}

fn run_cid(tier: Tier, starved: bool, out: &mut Output) {
    let cfg = cid_cfg(tier, starved);
    X_MAX_UNRETIRED_OVER_LIMIT.store(0, Ordering::Relaxed);
    X_SHOULD_ROUTE_GAP.store(0, Ordering::Relaxed);
    X_UNDELIVERABLE_RETIRE_PACKETS.store(0, Ordering::Relaxed);
    X_B_CLOSED.lock().unwrap().clear();
    let init = move || CidSys::new(cfg);
    let family = if starved { "c13.cid_starved" } else { "c13.cid" };
    let mut rep = explore(ENGINE, family, cfg.json(), &init, &Limits::depth(cfg.depth).wall(cfg.wall));
    rep.extra.push(("x_max_unretired_over_limit_without_may_allowance".into(), X_MAX_UNRETIRED_OVER_LIMIT.load(Ordering::Relaxed).into()));
    rep.extra.push(("x_max_ids_unrouted_after_request_before_retire".into(), X_SHOULD_ROUTE_GAP.load(Ordering::Relaxed).into()));
    rep.extra.push(("x_retire_packet_hit_unrouted_dcid".into(), X_UNDELIVERABLE_RETIRE_PACKETS.load(Ordering::Relaxed).into()));
    rep.extra.push(("x_b_close_reasons".into(), X_B_CLOSED.lock().unwrap().iter().cloned().collect::<Vec<String>>().into()));
    out.push(rep);
}

// =============================================================================================
// family c13.peer_adversary
// =============================================================================================

#[derive(Clone, Debug)]
enum AdvOp {
    Setup { rotate: bool },
    // ---- honest issuer ----
    /// next sequence number, Retire Prior To kept as small as the limit of 3 allows
    New,
    /// next sequence number, Retire Prior To = that number (replace everything)
    NewRetireAll,
    /// like `New`, but the frame is overtaken: it is parked and `Release`d later
    NewHeld,
    Release,
    /// the most recently delivered frame once more (network duplicate, original content)
    Dup,
    /// ... or retransmitted by the issuer with its current Retire Prior To
    DupCurrentRpt,
    BConsume,
    BTransmit,
    BAckAll,
    BLoseAll,
    // ---- adversary (terminal) ----
    AdvRptAboveSeq,
    AdvCidLen(u8),
    AdvFlood,
    AdvSeqReusedForOtherId,
    AdvIdReusedWithOtherSeq,
    AdvIdReusedWithOtherToken,
    AdvTokenReusedForOtherId { initial: bool },
}

struct AdvWorld {
    _mapper: ConnectionIdMapper,
    b: PeerIdRegistry,
    buf: OutgoingFrameBuffer,
    paths: Vec<connection::PeerId>,
}

#[derive(Clone, Debug, Hash, Default)]
struct AdvModel {
    /// frames delivered to B (seq -> frame as first delivered); 0 = handshake id
    known: BTreeMap<u64, (Vec<u8>, [u8; 16])>,
    next_seq: u64,
    issuer_rpt: u64,
    b_max_rpt: u64,
    held: Option<Ncid>,
    last: Option<Ncid>,
    retire_written: BTreeSet<u64>,
    unacked: Vec<u64>,
    done: bool,
}

struct AdvSys {
    w: Option<AdvWorld>,
    m: AdvModel,
    b_tx: bool,
    class: u64,
}

impl AdvSys {
    fn new() -> AdvSys {
        AdvSys { w: None, m: AdvModel::default(), b_tx: false, class: 0 }
    }

    fn id_of(seq: u64) -> Vec<u8> {
        make_id(0xB0, seq)
    }

    fn honest_frame(&self, retire_all: bool) -> Ncid {
        let seq = self.m.next_seq;
        // the issuer may have at most 3 ids outstanding that it has not asked to retire
        let rpt = if retire_all { seq } else { self.m.issuer_rpt.max(seq.saturating_sub(B_ADVERTISED_LIMIT as u64 - 1)) };
        let id = Self::id_of(seq);
        let token = make_token(&id);
        Ncid { seq, rpt, id, token }
    }

    /// feed one frame through encoder, decoder and the B-side glue
    fn feed(&mut self, raw: &[u8]) -> Result<(), (bool, transport::Error)> {
        let f = match decode_one(raw) {
            Ok(Decoded::Ncid(f)) => f,
            Ok(_) => return Err((true, transport::Error::INTERNAL_ERROR.with_reason("harness: not a NEW_CONNECTION_ID"))),
            Err(e) => return Err((true, e)),
        };
        let w = self.w.as_mut().unwrap();
        b_on_ncid(&mut w.b, &mut w.paths, &f)
    }

    fn raw_of(f: &Ncid) -> Vec<u8> {
        encode_frame(&frame::NewConnectionId {
            sequence_number: VarInt::new(f.seq).unwrap(),
            retire_prior_to: VarInt::new(f.rpt).unwrap(),
            connection_id: &f.id,
            stateless_reset_token: &f.token,
        })
    }

    fn honest(&mut self, f: Ncid) -> Result<(), Violation> {
        let raw = Self::raw_of(&f);
        match self.feed(&raw) {
            Ok(()) => {}
            Err((true, e)) => {
                //= RFC 9000 §19.15: "Receipt of the same frame multiple times MUST NOT be
                //= treated as a connection error." / honest sequences never error
                return violation(
                    "c13.peer_adversary.honest_rejected",
                    format!("honest frame {:?} rejected with {} ({})", f, e.code, e.reason),
                );
            }
            Err((false, _)) => {
                self.m.done = true; // B ran out of ids for its paths
            }
        }
        self.m.b_max_rpt = self.m.b_max_rpt.max(f.rpt);
        self.m.known.entry(f.seq).or_insert((f.id.clone(), f.token));
        self.m.last = Some(f);
        Ok(())
    }

    /// write everything B wants to send; returns the retired sequence numbers
    fn flush_b(&mut self) -> Result<Vec<u64>, Violation> {
        let w = self.w.as_mut().unwrap();
        {
            let mut ctx = MockWriteContext::new(
                clock::now(),
                &mut w.buf,
                transmission::Constraint::None,
                transmission::Mode::Normal,
                endpoint::Type::Client,
            );
            w.b.on_transmit(&mut ctx);
        }
        w.buf.flush();
        let mut seqs = Vec::new();
        while let Some(f) = w.buf.pop_front() {
            match decode_one(&f.data) {
                Ok(Decoded::Retire(s)) => {
                    ensure(self.m.known.contains_key(&s), "c13.peer_adversary.retire_unissued", || {
                        format!("B retires sequence number {} it never received", s)
                    })?;
                    self.m.retire_written.insert(s);
                    seqs.push(s);
                    self.m.unacked.push(f.packet_nr.as_u64());
                }
                _ => return violation("c13.peer_adversary.frame_content", "B wrote an unexpected frame"),
            }
        }
        Ok(seqs)
    }

    fn must_reject(&mut self, what: &str, raw: &[u8], rfc_code: u64) -> Result<(), Violation> {
        match self.feed(raw) {
            Ok(()) | Err((false, _)) => violation(
                "c13.peer_adversary.must_reject",
                format!("{}: frame {} was accepted", what, hex(raw)),
            ),
            Err((true, e)) => {
                let got = e.code.as_u64();
                X_REJECT_CODES.lock().unwrap().insert(format!("{}: rfc 0x{:02x}, s2n-quic 0x{:02x} ({})", what, rfc_code, got, e.reason));
                if STRICT_ERROR_CODES {
                    ensure(got == rfc_code, "c13.peer_adversary.error_code", || {
                        format!("{}: RFC 9000 prescribes error 0x{:02x}, got 0x{:02x} ({})", what, rfc_code, got, e.reason)
                    })?;
                }
                self.class = 0x100 | got;
                Ok(())
            }
        }
    }

    /// RFC 9000 §19.15 / §10.3.2 "MAY treat that receipt as a connection error of type
    /// PROTOCOL_VIOLATION": acceptance or exactly that error
    fn may_reject(&mut self, what: &str, f: &Ncid) -> Result<(), Violation> {
        let raw = Self::raw_of(f);
        match self.feed(&raw) {
            Ok(()) | Err((false, _)) => {
                self.class = 0x200;
                X_REJECT_CODES.lock().unwrap().insert(format!("{}: optional, s2n-quic accepts", what));
                Ok(())
            }
            Err((true, e)) => {
                let got = e.code.as_u64();
                X_REJECT_CODES.lock().unwrap().insert(format!("{}: optional 0x0a, s2n-quic 0x{:02x} ({})", what, got, e.reason));
                ensure(got == PROTOCOL_VIOLATION, "c13.peer_adversary.may_reject_code", || {
                    format!("{}: only PROTOCOL_VIOLATION is permitted, got 0x{:02x} ({})", what, got, e.reason)
                })?;
                self.class = 0x300 | got;
                Ok(())
            }
        }
    }

    //= RFC 9000 §5.1.2: "Upon receipt of an increased Retire Prior To field, the peer MUST stop
    //= using the corresponding connection IDs"; §19.15: a frame "with a sequence number smaller
    //= than the Retire Prior To field of a previously received NEW_CONNECTION_ID frame" is
    //= retired right away - so B never starts (or keeps) using such an id
    fn check_b_uses(&self, what: &str, id: &[u8]) -> Result<(), Violation> {
        let seq = self.m.known.iter().find(|(_, (kid, _))| kid == id).map(|(s, _)| *s);
        let ok = match seq {
            Some(s) => !self.m.retire_written.contains(&s) && s >= self.m.b_max_rpt,
            None => false,
        };
        ensure(ok, "c13.peer_adversary.b_uses_retired", || {
            format!(
                "{}: B uses {} (seq {:?}); retired by B: {:?}, largest retire_prior_to received {}",
                what,
                hex(id),
                seq,
                self.m.retire_written,
                self.m.b_max_rpt
            )
        })
    }

    fn fresh_unknown(&self, k: u64) -> (Vec<u8>, [u8; 16]) {
        let id = make_id(0xC0, 100 + k);
        let token = make_token(&id);
        (id, token)
    }
}

impl Sys for AdvSys {
    type Op = AdvOp;

    fn ops(&self) -> Vec<AdvOp> {
        if self.w.is_none() {
            return vec![AdvOp::Setup { rotate: true }, AdvOp::Setup { rotate: false }];
        }
        if self.m.done {
            return vec![];
        }
        let mut v = vec![AdvOp::New, AdvOp::NewRetireAll];
        if self.m.held.is_none() {
            v.push(AdvOp::NewHeld);
        } else {
            v.push(AdvOp::Release);
        }
        if let Some(l) = &self.m.last {
            v.push(AdvOp::Dup);
            if l.rpt < self.m.issuer_rpt && self.m.issuer_rpt <= l.seq {
                v.push(AdvOp::DupCurrentRpt);
            }
        }
        v.push(AdvOp::BConsume);
        if self.b_tx {
            v.push(AdvOp::BTransmit);
        }
        if !self.m.unacked.is_empty() {
            v.push(AdvOp::BAckAll);
            v.push(AdvOp::BLoseAll);
        }
        v.push(AdvOp::AdvRptAboveSeq);
        v.push(AdvOp::AdvCidLen(0));
        v.push(AdvOp::AdvCidLen(21));
        v.push(AdvOp::AdvFlood);
        if self.m.known.len() > 1 {
            v.push(AdvOp::AdvSeqReusedForOtherId);
            v.push(AdvOp::AdvIdReusedWithOtherSeq);
            v.push(AdvOp::AdvIdReusedWithOtherToken);
            v.push(AdvOp::AdvTokenReusedForOtherId { initial: false });
        }
        v.push(AdvOp::AdvTokenReusedForOtherId { initial: true });
        v
    }

    fn step(&mut self, op: &AdvOp) -> Result<(), Violation> {
        self.class = 0;
        match op {
            AdvOp::Setup { rotate } => {
                let mut rnd = random::testing::Generator(77);
                let mut mapper = ConnectionIdMapper::new(&mut rnd, endpoint::Type::Client);
                let icid = InternalConnectionIdGenerator::new().generate_id();
                let mut b = mapper.create_client_peer_id_registry(icid, *rotate);
                let id0 = Self::id_of(0);
                let token0 = make_token(&id0);
                b.register_initial_connection_id(pid(&id0));
                b.register_initial_stateless_reset_token(token0.into());
                let mut buf = OutgoingFrameBuffer::new();
                buf.set_max_packet_size(Some(1200));
                self.m.known.insert(0, (id0.clone(), token0));
                self.m.next_seq = 1;
                self.w = Some(AdvWorld { _mapper: mapper, b, buf, paths: vec![pid(&id0)] });
            }
            AdvOp::New | AdvOp::NewRetireAll | AdvOp::NewHeld => {
                let f = self.honest_frame(matches!(op, AdvOp::NewRetireAll));
                self.m.next_seq += 1;
                self.m.issuer_rpt = self.m.issuer_rpt.max(f.rpt);
                if matches!(op, AdvOp::NewHeld) {
                    self.m.held = Some(f);
                } else {
                    self.honest(f)?;
                }
            }
            AdvOp::Release => {
                let f = self.m.held.take().unwrap();
                self.honest(f)?;
            }
            AdvOp::Dup => {
                let f = self.m.last.clone().unwrap();
                self.honest(f)?;
            }
            AdvOp::DupCurrentRpt => {
                let mut f = self.m.last.clone().unwrap();
                f.rpt = self.m.issuer_rpt;
                self.honest(f)?;
            }
            AdvOp::BConsume => {
                let w = self.w.as_mut().unwrap();
                if w.paths.len() < 3 {
                    let id = w.b.consume_new_id_for_new_path().unwrap_or(w.paths[0]);
                    w.paths.push(id);
                    self.check_b_uses("new path", id.as_bytes())?;
                }
            }
            AdvOp::BTransmit => {
                self.flush_b()?;
            }
            AdvOp::BAckAll | AdvOp::BLoseAll => {
                let pns = std::mem::take(&mut self.m.unacked);
                let w = self.w.as_mut().unwrap();
                for pn in pns {
                    if matches!(op, AdvOp::BAckAll) {
                        w.b.on_packet_ack(&pn_of(pn));
                    } else {
                        w.b.on_packet_loss(&pn_of(pn));
                    }
                }
            }
            // ------------------------------------------------------------------ adversary
            AdvOp::AdvRptAboveSeq => {
                //= RFC 9000 §19.15: "Receiving a value in the Retire Prior To field that is
                //= greater than that in the Sequence Number field MUST be treated as a
                //= connection error of type FRAME_ENCODING_ERROR."
                let mut f = self.honest_frame(false);
                f.rpt = f.seq + 1;
                let raw = Self::raw_of(&f);
                self.must_reject("retire_prior_to > sequence_number", &raw, FRAME_ENCODING_ERROR)?;
                self.m.done = true;
            }
            AdvOp::AdvCidLen(len) => {
                //= RFC 9000 §19.15: Length "Values less than 1 and greater than 20 are invalid
                //= and MUST be treated as a connection error of type FRAME_ENCODING_ERROR."
                let seq = self.m.next_seq.min(63) as u8;
                let mut raw = vec![0x18, seq, self.m.issuer_rpt.min(seq as u64) as u8, *len];
                raw.extend(std::iter::repeat(0xDD).take(*len as usize));
                raw.extend([0xEE; 16]);
                self.must_reject(&format!("connection id length {}", len), &raw, FRAME_ENCODING_ERROR)?;
                self.m.done = true;
            }
            AdvOp::AdvFlood => {
                //= RFC 9000 §5.1.1: "After processing a NEW_CONNECTION_ID frame and adding and
                //= retiring active connection IDs, if the number of active connection IDs
                //= exceeds the value advertised in its active_connection_id_limit transport
                //= parameter, an endpoint MUST close the connection with an error of type
                //= CONNECTION_ID_LIMIT_ERROR."
                // everything B decided to retire so far goes onto the wire first, so that the
                // set of ids B still holds is observable: received minus retired-on-the-wire
                self.flush_b()?;
                let mut closed = false;
                for _ in 0..(B_ADVERTISED_LIMIT + 2) {
                    let mut f = self.honest_frame(false);
                    f.rpt = self.m.issuer_rpt; // never asks to retire anything more
                    self.m.next_seq += 1;
                    let raw = Self::raw_of(&f);
                    let upper = self
                        .m
                        .known
                        .keys()
                        .chain(std::iter::once(&f.seq))
                        .filter(|s| **s >= self.m.b_max_rpt.max(f.rpt) && !self.m.retire_written.contains(s))
                        .count();
                    let r = self.feed(&raw);
                    match r {
                        Ok(()) | Err((false, _)) => {
                            self.m.known.insert(f.seq, (f.id.clone(), f.token));
                            self.flush_b()?;
                            let held = self.m.known.keys().filter(|s| !self.m.retire_written.contains(s)).count();
                            ensure(held <= B_ADVERTISED_LIMIT, "c13.peer_adversary.limit_not_enforced", || {
                                format!(
                                    "after accepting {:?} B holds {} unretired ids ({:?} minus retired {:?}), its advertised limit is {}",
                                    f,
                                    held,
                                    self.m.known.keys().collect::<Vec<_>>(),
                                    self.m.retire_written,
                                    B_ADVERTISED_LIMIT
                                )
                            })?;
                        }
                        Err((true, e)) => {
                            let got = e.code.as_u64();
                            // B may retire ids on its own (handshake id rotation), which the
                            // wire shows only afterwards: with `upper` = limit + 1 both answers
                            // are consistent; below that an error is a false rejection
                            ensure(upper > B_ADVERTISED_LIMIT, "c13.peer_adversary.honest_rejected", || {
                                format!("frame {:?} leaves at most {} active ids but was rejected with 0x{:02x} ({})", f, upper, got, e.reason)
                            })?;
                            X_REJECT_CODES.lock().unwrap().insert(format!(
                                "active_connection_id_limit exceeded: rfc 0x09, s2n-quic 0x{:02x} ({})",
                                got, e.reason
                            ));
                            ensure(got == CONNECTION_ID_LIMIT_ERROR, "c13.peer_adversary.limit_error_code", || {
                                format!("limit exceeded answered with 0x{:02x} ({}) instead of CONNECTION_ID_LIMIT_ERROR", got, e.reason)
                            })?;
                            self.class = 0x400 | got;
                            closed = true;
                            break;
                        }
                    }
                }
                ensure(closed, "c13.peer_adversary.limit_not_enforced", || {
                    format!("{} ids beyond the limit were accepted", B_ADVERTISED_LIMIT + 2)
                })?;
                self.m.done = true;
            }
            AdvOp::AdvSeqReusedForOtherId => {
                let (&seq, _) = self.m.known.iter().next_back().unwrap();
                let (id, token) = self.fresh_unknown(1);
                let f = Ncid { seq, rpt: self.m.issuer_rpt.min(seq), id, token };
                self.may_reject("sequence number reused for a different id", &f)?;
                self.m.done = true;
            }
            AdvOp::AdvIdReusedWithOtherSeq => {
                let (_, (id, token)) = self.m.known.iter().next_back().unwrap();
                let f = Ncid { seq: self.m.next_seq, rpt: self.m.issuer_rpt, id: id.clone(), token: *token };
                self.may_reject("id repeated with a different sequence number", &f)?;
                self.m.done = true;
            }
            AdvOp::AdvIdReusedWithOtherToken => {
                let (&seq, (id, _)) = self.m.known.iter().next_back().unwrap();
                let (_, token) = self.fresh_unknown(2);
                let f = Ncid { seq, rpt: self.m.issuer_rpt.min(seq), id: id.clone(), token };
                self.may_reject("id repeated with a different stateless reset token", &f)?;
                self.m.done = true;
            }
            AdvOp::AdvTokenReusedForOtherId { initial } => {
                let token = if *initial { self.m.known[&0].1 } else { self.m.known.iter().next_back().unwrap().1 .1 };
                let (id, _) = self.fresh_unknown(3);
                let f = Ncid { seq: self.m.next_seq, rpt: self.m.issuer_rpt, id, token };
                self.may_reject("stateless reset token reused for a different id", &f)?;
                self.m.done = true;
            }
        }
        self.b_tx = self.w.as_ref().unwrap().b.has_transmission_interest();
        if !self.m.done {
            let dcid = self.w.as_ref().unwrap().paths[0];
            self.check_b_uses("active path", dcid.as_bytes())?;
        }
        Ok(())
    }

    fn key(&self) -> u128 {
        let Some(w) = self.w.as_ref() else { return 0 };
        let b = format!("{:?}", w.b);
        let b_own = b.find("registered_ids").map(|i| &b[i..]).unwrap_or(&b);
        key128(&(b_own, &w.paths.iter().map(|p| p.as_bytes().to_vec()).collect::<Vec<_>>(), &self.m, self.class))
    }

    fn outcome(&self) -> u64 {
        self.class
    }
}

fn adv_depth(tier: Tier) -> usize {
    // Setup + 4 (quick) / + 5 (thorough) honest steps, the adversarial frame is the last step
    tier.pick(1 + 4, 1 + 5)
}

fn run_adv(tier: Tier, out: &mut Output) {
    let depth = adv_depth(tier);
    let init = || AdvSys::new();
    let cfg = Json::obj().set("depth", depth).set("strict_error_codes", STRICT_ERROR_CODES).set("b_advertised_limit", B_ADVERTISED_LIMIT);
    let mut rep = explore(ENGINE, "c13.peer_adversary", cfg, &init, &Limits::depth(depth).wall(tier.pick(20.0, 120.0)));
    rep.extra.push(("x_reject_codes".into(), X_REJECT_CODES.lock().unwrap().iter().cloned().collect::<Vec<String>>().into()));
    out.push(rep);
}

// =============================================================================================
// family c13.pathmgr
// =============================================================================================
//
// The consumer side of C13 with the REAL `path::Manager<endpoint::testing::Server>` (and the real
// `PeerIdRegistry` inside it) in the loop, so that the glue the family `c13.cid` only transcribes
// (`update_active_path`, `handle_connection_migration`, `on_new_connection_id`, the fallback to
// the last validated path in `on_timeout`) is code under test here. The peer (client) is a
// scripted honest issuer; the server is driven through the entry points the connection uses:
//   datagram      `on_datagram_received` (+ the `local_connection_id` update that
//                 `Path::on_process_local_connection_id` performs) + `on_processed_packet`
//   NEW_CONNECTION_ID  encoded, decoded by the real decoder, `on_datagram_received` from the
//                 client's current address, `on_new_connection_id`, `on_processed_packet(Probing)`
//                 (NEW_CONNECTION_ID is a probing frame, RFC 9000 §9.1)
//   PATH_RESPONSE `on_path_response` with the data of a PATH_CHALLENGE the manager really wrote
//   transmit      what `ConnectionImpl::on_transmit` does in one round: one Normal-mode packet on
//                 the active path (`active_path_mut().on_transmit` for PATH_CHALLENGE /
//                 PATH_RESPONSE, then `Manager::on_transmit` for RETIRE_CONNECTION_ID, the order of
//                 `transmission::application::Normal::transmit_control_data`), addressed with
//                 `active_path().peer_connection_id`; then one PathValidationOnly packet per other
//                 path in `paths_pending_validation()`
//   lose / ack    `on_packet_loss` / `on_packet_ack` for packets that carried RETIRE frames
//   timer         `on_timeout` at the latest armed timer (a long silence: every pending
//                 PATH_CHALLENGE is abandoned)

use crate::endpoint::testing::Server as PmConfig;
use s2n_quic_core::{
    connection::limits::ANTI_AMPLIFICATION_MULTIPLIER,
    frame::path_validation,
    inet::{DatagramInfo, ExplicitCongestionNotification, SocketAddress},
    path::{migration, mtu, RemoteAddress},
    recovery::RttEstimator,
};

type PmManager = crate::path::Manager<PmConfig>;
type PmPath = crate::path::Path<PmConfig>;

static X_PM_CLOSED: Mutex<BTreeSet<String>> = Mutex::new(BTreeSet::new());
static X_PM_PROBE_TO_RETIRED: AtomicU64 = AtomicU64::new(0);
static X_PM_STALE_ACTIVE_WITHOUT_REPLACEMENT: AtomicU64 = AtomicU64::new(0);

#[derive(Clone, Copy, Debug)]
struct PmCfg {
    depth: usize,
    /// client addresses (A, B[, C])
    addrs: u8,
    /// how often the client may switch to a fresh destination connection id
    max_fresh: u8,
    bag_cap: usize,
    /// experimentation only: check the active path's id only when a packet is addressed with it
    lazy: bool,
    /// offer the `Timer` op (family c13.pathmgr_timer)
    timer: bool,
    wall: f64,
}

impl PmCfg {
    fn json(&self) -> Json {
        Json::obj()
            .set("depth", self.depth)
            .set("addrs", self.addrs)
            .set("max_fresh", self.max_fresh)
            .set("bag_cap", self.bag_cap)
            .set("lazy", self.lazy)
            .set("timer", self.timer)
    }
}

#[derive(Clone, Copy, Debug, PartialEq, Eq)]
enum Rpt {
    /// Retire Prior To unchanged
    Keep,
    /// ... raised by one
    Plus1,
    /// ... equal to the new sequence number (replace everything)
    Seq,
}

#[derive(Clone, Debug)]
enum PmOp {
    /// `rotate`: the server's `rotate_handshake_connection_id`; `warm`: the client has already
    /// issued seq 1 and 2 and the resulting RETIRE frames were sent and acknowledged
    Setup { rotate: bool, warm: bool },
    /// non-probing packet from address `addr`; `fresh`: the client switches to its next
    /// destination connection id first
    Datagram { addr: u8, fresh: bool },
    /// PATH_RESPONSE for the PATH_CHALLENGE last written for the path of address `addr`
    Validate { addr: u8 },
    Ncid(Rpt),
    Transmit,
    Lose(usize),
    Ack(usize),
    Timer,
}

#[derive(Clone, Debug, Hash)]
struct PmPacket {
    pn: u64,
    dcid: Vec<u8>,
    seqs: Vec<u64>,
}

#[derive(Clone, Debug, Hash, Default)]
struct PmModel {
    /// ids the client issued (index = sequence number), all delivered
    issued: Vec<(Vec<u8>, [u8; 16])>,
    /// largest Retire Prior To the client sent (= the server received)
    rpt: u64,
    /// sequence numbers the server wrote a RETIRE_CONNECTION_ID for
    retire_written: BTreeSet<u64>,
    /// ... and the client has seen (the packet was acknowledged)
    client_knows_retired: BTreeSet<u64>,
    /// sequence numbers ever observed as the destination id of some path
    used: BTreeSet<u64>,
    /// the address the client currently sends from, its current destination id
    client_addr: u8,
    client_dcid: u8,
    /// PATH_CHALLENGE data last written per address
    challenges: BTreeMap<u8, [u8; 8]>,
    /// the active path holds an id that must not be used ever since `on_timeout` fell back to
    /// the last validated path (only selects the clause name of what follows from it)
    stale_since_fallback: bool,
    closed: Option<String>,
}

struct PmSys {
    cfg: PmCfg,
    mgr: Option<PmManager>,
    buf: OutgoingFrameBuffer,
    rnd: random::testing::Generator,
    m: PmModel,
    packets: Vec<PmPacket>,
    t0: Timestamp,
    now: Timestamp,
    // cached inside the panic guard
    tx_interest: bool,
    timer_useful: bool,
}

fn pm_addr(i: u8) -> RemoteAddress {
    let a: std::net::SocketAddr = format!("127.0.0.{}:{}", 1 + i, 8001 + 1000 * i as u16).parse().unwrap();
    RemoteAddress::from(SocketAddress::from(a))
}
fn pm_path_id(i: u8) -> s2n_quic_core::path::Id {
    // Safety: only used to index paths the manager reported itself
    unsafe { s2n_quic_core::path::Id::new(i) }
}
fn pm_local_id(n: u8) -> connection::LocalId {
    lid(&make_id(0x5E, n as u64))
}
/// `name: Type { ... }` with balanced braces out of a Debug rendering
fn debug_field<'a>(s: &'a str, start: &str) -> &'a str {
    let Some(i) = s.find(start) else { return "" };
    let bytes = s.as_bytes();
    let mut depth = 0i32;
    for j in i..bytes.len() {
        match bytes[j] {
            b'{' => depth += 1,
            b'}' => {
                depth -= 1;
                if depth == 0 {
                    return &s[i..=j];
                }
            }
            _ => {}
        }
    }
    &s[i..]
}

impl PmSys {
    fn new(cfg: PmCfg) -> PmSys {
        let t0 = clock::now();
        let mut buf = OutgoingFrameBuffer::new();
        buf.set_max_packet_size(Some(1200));
        PmSys {
            cfg,
            mgr: None,
            buf,
            rnd: random::testing::Generator(123),
            m: PmModel::default(),
            packets: Vec::new(),
            t0,
            now: t0,
            tx_interest: false,
            timer_useful: false,
        }
    }

    fn seq_of(&self, id: &[u8]) -> Option<u64> {
        self.m.issued.iter().position(|(i, _)| i == id).map(|s| s as u64)
    }

    /// ids the server could switch to: issued, not asked to be retired, never used, not retired
    fn unused_ids(&self) -> Vec<u64> {
        (0..self.m.issued.len() as u64)
            .filter(|s| *s >= self.m.rpt && !self.m.used.contains(s) && !self.m.retire_written.contains(s))
            .collect()
    }

    /// (address index, path id, path) of every path the manager knows
    fn paths(&self) -> Vec<(u8, u8)> {
        let mgr = self.mgr.as_ref().unwrap();
        let mut v = Vec::new();
        for a in 0..self.cfg.addrs {
            if let Some((id, _)) = mgr.path(&pm_addr(a)) {
                v.push((a, id.as_u8()));
            }
        }
        v
    }

    fn observe_used(&mut self) {
        let ids: Vec<Vec<u8>> = {
            let mgr = self.mgr.as_ref().unwrap();
            self.paths().iter().map(|(_, p)| mgr[pm_path_id(*p)].peer_connection_id.as_bytes().to_vec()).collect()
        };
        for id in ids {
            if let Some(s) = self.seq_of(&id) {
                self.m.used.insert(s);
            }
        }
    }

    /// an error returned for honest input: tolerated (the connection closes, terminal state) only
    /// when the peer really left the server without a spare id
    fn on_error(&mut self, what: &str, code: String, spare_before: &[u64]) -> Result<(), Violation> {
        //= RFC 9000 §5.1.2: an endpoint "MAY choose to treat having connection IDs in need of
        //= retirement that exceed this limit [at least twice the active_connection_id_limit] as a
        //= connection error of type CONNECTION_ID_LIMIT_ERROR"
        // ids the server had to retire (or retired) and whose RETIRE the client has not seen yet
        let retired_unacked = (0..self.m.issued.len() as u64)
            .filter(|s| (*s < self.m.rpt || self.m.retire_written.contains(s)) && !self.m.client_knows_retired.contains(s))
            .count();
        if retired_unacked > 2 * B_ADVERTISED_LIMIT && code.starts_with("CONNECTION_ID_LIMIT_ERROR") {
            self.m.closed = Some(format!("{}: {} with {} retirements unacknowledged", what, code, retired_unacked));
            return Ok(());
        }
        ensure(spare_before.is_empty(), "c13.pathmgr.honest_error", || {
            format!("{} failed with {} although the unused ids {:?} were available", what, code, spare_before)
        })?;
        self.m.closed = Some(format!("{}: {}", what, code));
        Ok(())
    }

    fn datagram_info(&self, dcid: connection::LocalId) -> DatagramInfo {
        DatagramInfo {
            timestamp: self.now,
            payload_len: 1200,
            ecn: ExplicitCongestionNotification::default(),
            destination_connection_id: dcid,
            destination_connection_id_classification: connection::id::Classification::Local,
            source_connection_id: None,
        }
    }

    /// `ConnectionImpl::on_datagram_received` as far as the path manager is concerned
    fn receive(&mut self, addr: u8) -> Result<Option<u8>, Violation> {
        let info = self.datagram_info(pm_local_id(self.m.client_dcid));
        let mut publisher = event::testing::Publisher::no_snapshot();
        let mgr = self.mgr.as_mut().unwrap();
        let r = mgr.on_datagram_received(
            &pm_addr(addr),
            &info,
            true,
            &mut Default::default(),
            &mut migration::allow_all::Validator,
            &mut mtu::Manager::new(mtu::Config::default()),
            &connection::Limits::default(),
            &mut publisher,
        );
        match r {
            Ok((id, _)) => {
                // `Path::on_process_local_connection_id` (called by the packet space once the
                // packet is authenticated)
                if mgr[id].local_connection_id != info.destination_connection_id {
                    mgr[id].local_connection_id = info.destination_connection_id;
                }
                Ok(Some(id.as_u8()))
            }
            Err(reason) => violation(
                "c13.pathmgr.honest_error",
                format!("datagram from address {} dropped: {:?}", addr, reason),
            ),
        }
    }

    fn datagram(&mut self, addr: u8, fresh: bool) -> Result<(), Violation> {
        if fresh {
            self.m.client_dcid += 1;
        }
        self.m.client_addr = addr;
        let Some(path) = self.receive(addr)? else { return Ok(()) };
        self.observe_used();
        let spare = self.unused_ids();
        let mut publisher = event::testing::Publisher::no_snapshot();
        let r = self.mgr.as_mut().unwrap().on_processed_packet(
            pm_path_id(path),
            None,
            path_validation::Probe::NonProbing,
            &mut self.rnd,
            &mut publisher,
        );
        if let Err(e) = r {
            self.on_error("non-probing packet on another path", format!("{} ({})", e.code, e.reason), &spare)?;
        }
        Ok(())
    }

    fn ncid(&mut self, kind: Rpt) -> Result<(), Violation> {
        let seq = self.m.issued.len() as u64;
        let rpt = match kind {
            Rpt::Keep => self.m.rpt,
            Rpt::Plus1 => self.m.rpt + 1,
            Rpt::Seq => seq,
        };
        let id = make_id(0xC1, seq);
        let token = make_token(&id);
        let raw = encode_frame(&frame::NewConnectionId {
            sequence_number: VarInt::new(seq).unwrap(),
            retire_prior_to: VarInt::new(rpt).unwrap(),
            connection_id: &id,
            stateless_reset_token: &token,
        });
        let f = match decode_one(&raw) {
            Ok(Decoded::Ncid(f)) => f,
            _ => return violation("c13.pathmgr.honest_error", format!("honest NEW_CONNECTION_ID {} does not decode", hex(&raw))),
        };
        self.m.issued.push((id, token));
        self.m.rpt = self.m.rpt.max(rpt);
        let spare = self.unused_ids();
        let addr = self.m.client_addr;
        let Some(path) = self.receive(addr)? else { return Ok(()) };
        let mut publisher = event::testing::Publisher::no_snapshot();
        // `handle_new_connection_id_frame`
        let peer_id = pid(&f.id);
        let token: stateless_reset::Token = f.token.into();
        let r = self.mgr.as_mut().unwrap().on_new_connection_id(&peer_id, f.seq as u32, f.rpt as u32, &token, &mut publisher);
        if let Err(e) = r {
            return self.on_error("NEW_CONNECTION_ID", format!("{} ({})", e.code, e.reason), &spare);
        }
        self.observe_used();
        let r = self.mgr.as_mut().unwrap().on_processed_packet(
            pm_path_id(path),
            None,
            path_validation::Probe::Probing,
            &mut self.rnd,
            &mut publisher,
        );
        if let Err(e) = r {
            return self.on_error("probing packet", format!("{} ({})", e.code, e.reason), &spare);
        }
        Ok(())
    }

    /// the honest client keeps at most 3 ids outstanding that it has neither asked to retire nor
    /// seen retired (the server advertises active_connection_id_limit = 3)
    fn ncid_allowed(&self, kind: Rpt) -> bool {
        let seq = self.m.issued.len() as u64;
        let rpt = match kind {
            Rpt::Keep => self.m.rpt,
            Rpt::Plus1 => self.m.rpt + 1,
            Rpt::Seq => seq,
        };
        if rpt > seq {
            return false;
        }
        // avoid offering the same frame twice
        if (kind == Rpt::Plus1 || kind == Rpt::Seq) && rpt == self.m.rpt {
            return false;
        }
        if kind == Rpt::Seq && rpt == self.m.rpt + 1 {
            return false;
        }
        let outstanding = (0..=seq).filter(|s| *s >= rpt && !self.m.client_knows_retired.contains(s)).count();
        outstanding <= B_ADVERTISED_LIMIT
    }

    fn drain(&mut self) -> Vec<(u64, Decoded)> {
        self.buf.flush();
        let mut v = Vec::new();
        while let Some(f) = self.buf.pop_front() {
            v.push((f.packet_nr.as_u64(), decode_one(&f.data).unwrap_or(Decoded::Other)));
        }
        v
    }

    fn transmit(&mut self) -> Result<(), Violation> {
        let now = self.now;
        // ---- the Normal-mode packet on the active path
        let (active_addr, dcid, limited) = {
            let mgr = self.mgr.as_ref().unwrap();
            let p = mgr.active_path();
            let addr = (0..self.cfg.addrs).find(|a| pm_addr(*a) == p.handle).unwrap_or(255);
            (addr, p.peer_connection_id.as_bytes().to_vec(), p.at_amplification_limit())
        };
        if !limited {
            {
                let mgr = self.mgr.as_mut().unwrap();
                let mut ctx = MockWriteContext::new(
                    now,
                    &mut self.buf,
                    transmission::Constraint::None,
                    transmission::Mode::Normal,
                    endpoint::Type::Server,
                );
                mgr.active_path_mut().on_transmit(&mut ctx);
                mgr.on_transmit(&mut ctx);
            }
            let frames = self.drain();
            let mut seqs = Vec::new();
            let mut pn = None;
            let mut padded = false;
            for (p, f) in frames {
                pn = Some(p);
                match f {
                    Decoded::Retire(seq) => {
                        //= RFC 9000 §19.16: "The sequence number specified in a
                        //= RETIRE_CONNECTION_ID frame MUST NOT refer to the Destination
                        //= Connection ID field of the packet in which the frame is contained."
                        let own = self.m.issued.get(seq as usize).map_or(false, |(id, _)| *id == dcid);
                        let clause = if self.m.stale_since_fallback {
                            "c13.pathmgr.fallback_retire_own_dcid"
                        } else {
                            "c13.pathmgr.retire_own_dcid"
                        };
                        ensure(!own, clause, || {
                            format!("RETIRE_CONNECTION_ID({}) written into a packet addressed with that very id {}", seq, hex(&dcid))
                        })?;
                        //= property: "it only retires peer IDs the peer actually issued"
                        ensure((seq as usize) < self.m.issued.len(), "c13.pathmgr.retire_unissued", || {
                            format!("RETIRE_CONNECTION_ID({}) but the peer only issued 0..{}", seq, self.m.issued.len())
                        })?;
                        self.m.retire_written.insert(seq);
                        seqs.push(seq);
                    }
                    Decoded::Challenge(data) => {
                        self.m.challenges.insert(active_addr, data);
                        padded = true;
                    }
                    _ => {}
                }
            }
            if let Some(pn) = pn {
                // a packet is addressed with the active path's id
                if self.m.stale_since_fallback {
                    self.check_dcid_as("c13.pathmgr.fallback_uses_retired", "packet on the active path", &dcid)?;
                } else {
                    self.check_dcid("packet on the active path", &dcid)?;
                }
                self.mgr.as_mut().unwrap().active_path_mut().on_bytes_transmitted(if padded { 1200 } else { 60 });
                if !seqs.is_empty() {
                    self.packets.push(PmPacket { pn, dcid: dcid.clone(), seqs });
                }
            }
        }
        // ---- PathValidationOnly packets (`path_validation_only_transmission`)
        let mut probes: Vec<(u8, Vec<u8>)> = Vec::new();
        {
            let mgr = self.mgr.as_mut().unwrap();
            let mut pending = mgr.paths_pending_validation();
            while let Some((id, mgr)) = pending.next_path() {
                if id == mgr.active_path_id() || !mgr[id].can_transmit(now) {
                    continue;
                }
                let mut ctx = MockWriteContext::new(
                    now,
                    &mut self.buf,
                    transmission::Constraint::None,
                    transmission::Mode::PathValidationOnly,
                    endpoint::Type::Server,
                );
                mgr[id].on_transmit(&mut ctx);
                mgr[id].on_bytes_transmitted(1200);
                let addr = (0..self.cfg.addrs).find(|a| pm_addr(*a) == mgr[id].handle).unwrap_or(255);
                probes.push((addr, mgr[id].peer_connection_id.as_bytes().to_vec()));
            }
        }
        let frames = self.drain();
        // one packet per probed path, in order
        let mut by_pn: BTreeMap<u64, Vec<Decoded>> = BTreeMap::new();
        for (p, f) in frames {
            by_pn.entry(p).or_default().push(f);
        }
        for ((addr, dcid), (_, fs)) in probes.iter().zip(by_pn.into_iter()) {
            for f in fs {
                if let Decoded::Challenge(data) = f {
                    self.m.challenges.insert(*addr, data);
                }
            }
            // measured only: a probe on an idle path may still carry the id the path was
            // created with
            if self.dcid_problem(dcid).is_some() {
                X_PM_PROBE_TO_RETIRED.fetch_max(1, Ordering::Relaxed);
            }
        }
        Ok(())
    }

    /// why `id` must not be used as a destination id any more (None: fine)
    //= RFC 9000 §5.1.2: "Upon receipt of an increased Retire Prior To field, the peer MUST stop
    //= using the corresponding connection IDs"; "Sending a RETIRE_CONNECTION_ID frame indicates
    //= that the connection ID will not be used again"
    fn dcid_problem(&self, id: &[u8]) -> Option<String> {
        match self.seq_of(id) {
            None => Some("the peer never issued it".into()),
            Some(s) if s < self.m.rpt => Some(format!("seq {} is below the largest Retire Prior To received ({})", s, self.m.rpt)),
            Some(s) if self.m.retire_written.contains(&s) => Some(format!("RETIRE_CONNECTION_ID({}) was already sent", s)),
            _ => None,
        }
    }

    fn check_dcid(&self, what: &str, id: &[u8]) -> Result<(), Violation> {
        self.check_dcid_as("c13.pathmgr.active_uses_retired", what, id)
    }

    fn check_dcid_as(&self, clause: &str, what: &str, id: &[u8]) -> Result<(), Violation> {
        if let Some(why) = self.dcid_problem(id) {
            let spare = self.unused_ids();
            // "once a replacement was available": with no spare id the real manager closes the
            // connection where it notices; where it does not, the state is only measured
            if spare.is_empty() {
                X_PM_STALE_ACTIVE_WITHOUT_REPLACEMENT.fetch_max(1, Ordering::Relaxed);
                return Ok(());
            }
            return violation(
                clause,
                format!("{}: destination id {} must not be used ({}); unused ids available: {:?}", what, hex(id), why, spare),
            );
        }
        Ok(())
    }

    fn timer_target(&self) -> Option<Timestamp> {
        let mut latest: Option<Timestamp> = None;
        self.mgr.as_ref().unwrap().for_each_timer(|t| {
            if let Some(e) = t.next_expiration() {
                latest = Some(latest.map_or(e, |l| l.max(e)));
            }
            Ok(())
        });
        latest
    }

    fn refresh(&mut self) {
        let mgr = self.mgr.as_ref().unwrap();
        let paths = self.paths();
        let challenge_or_response = paths.iter().any(|(_, p)| {
            let p = &mgr[pm_path_id(*p)];
            p.has_transmission_interest()
        });
        self.tx_interest = mgr.peer_id_registry.has_transmission_interest() || challenge_or_response;
        // time only matters for abandoning PATH_CHALLENGEs that are on the wire
        self.timer_useful = paths.iter().any(|(a, p)| mgr[pm_path_id(*p)].is_challenge_pending() && self.m.challenges.contains_key(a))
            && self.timer_target().map_or(false, |t| t > self.now);
    }
}

impl Sys for PmSys {
    type Op = PmOp;

    fn ops(&self) -> Vec<PmOp> {
        let mut v = Vec::new();
        if self.mgr.is_none() {
            for warm in [false, true] {
                for rotate in [true, false] {
                    v.push(PmOp::Setup { rotate, warm });
                }
            }
            return v;
        }
        if self.m.closed.is_some() {
            return v;
        }
        let mgr = self.mgr.as_ref().unwrap();
        let active_addr = (0..self.cfg.addrs).find(|a| pm_addr(*a) == mgr.active_path().handle);
        for addr in 0..self.cfg.addrs {
            if Some(addr) != active_addr {
                v.push(PmOp::Datagram { addr, fresh: false });
            }
        }
        if self.m.client_dcid < self.cfg.max_fresh {
            for addr in 0..self.cfg.addrs {
                v.push(PmOp::Datagram { addr, fresh: true });
            }
        }
        for (addr, p) in self.paths() {
            if mgr[pm_path_id(p)].is_challenge_pending() && self.m.challenges.contains_key(&addr) {
                v.push(PmOp::Validate { addr });
            }
        }
        for kind in [Rpt::Keep, Rpt::Plus1, Rpt::Seq] {
            if self.ncid_allowed(kind) {
                v.push(PmOp::Ncid(kind));
            }
        }
        if self.tx_interest && self.packets.len() < self.cfg.bag_cap {
            v.push(PmOp::Transmit);
        }
        for i in 0..self.packets.len() {
            v.push(PmOp::Lose(i));
        }
        for i in 0..self.packets.len() {
            v.push(PmOp::Ack(i));
        }
        if self.cfg.timer && self.timer_useful {
            v.push(PmOp::Timer);
        }
        v
    }

    fn step(&mut self, op: &PmOp) -> Result<(), Violation> {
        match op {
            PmOp::Setup { rotate, warm } => {
                let id0 = make_id(0xC1, 0);
                let token0 = make_token(&id0);
                self.m.issued.push((id0.clone(), token0));
                let mut path = PmPath::new(
                    pm_addr(0),
                    pid(&id0),
                    pm_local_id(0),
                    RttEstimator::new(Duration::from_millis(30)),
                    Default::default(),
                    false,
                    mtu::Config::default(),
                    ANTI_AMPLIFICATION_MULTIPLIER,
                    0,
                );
                // the handshake validated the client's first address
                path.on_handshake_packet();
                let mut rnd = random::testing::Generator(123);
                let registry = ConnectionIdMapper::new(&mut rnd, endpoint::Type::Server).create_server_peer_id_registry(
                    InternalConnectionIdGenerator::new().generate_id(),
                    pid(&id0),
                    *rotate,
                );
                self.mgr = Some(PmManager::new(path, registry));
                self.observe_used();
                if *warm {
                    self.ncid(Rpt::Keep)?;
                    self.observe_used();
                    self.ncid(Rpt::Keep)?;
                    self.observe_used();
                    self.refresh();
                    if self.tx_interest {
                        self.transmit()?;
                        while !self.packets.is_empty() {
                            let p = self.packets.remove(0);
                            self.mgr.as_mut().unwrap().on_packet_ack(&pn_of(p.pn));
                            self.m.client_knows_retired.extend(p.seqs);
                        }
                    }
                }
            }
            PmOp::Datagram { addr, fresh } => self.datagram(*addr, *fresh)?,
            PmOp::Validate { addr } => {
                let data = self.m.challenges[addr];
                let mut publisher = event::testing::Publisher::no_snapshot();
                let _ = self.mgr.as_mut().unwrap().on_path_response(&frame::PathResponse { data: &data }, &mut publisher);
            }
            PmOp::Ncid(kind) => self.ncid(*kind)?,
            PmOp::Transmit => self.transmit()?,
            PmOp::Lose(i) => {
                let p = self.packets.remove(*i);
                self.mgr.as_mut().unwrap().on_packet_loss(&pn_of(p.pn));
            }
            PmOp::Ack(i) => {
                let p = self.packets.remove(*i);
                self.mgr.as_mut().unwrap().on_packet_ack(&pn_of(p.pn));
                self.m.client_knows_retired.extend(p.seqs);
            }
            PmOp::Timer => {
                let t = self.timer_target().expect("timer armed").max(self.now);
                self.now = t;
                let mut publisher = event::testing::Publisher::no_snapshot();
                let r = self.mgr.as_mut().unwrap().on_timeout(t, &mut self.rnd, &mut publisher);
                if let Err(e) = r {
                    // no PATH_RESPONSE arrived and there is no validated path to fall back to:
                    // the connection is discarded (RFC 9000 §9.3.2), nothing C13 constrains
                    self.m.closed = Some(format!("on_timeout: {:?}", e));
                }
            }
        }
        if let Some(c) = &self.m.closed {
            X_PM_CLOSED.lock().unwrap().insert(c.clone());
            return Ok(());
        }
        self.observe_used();
        self.refresh();
        {
            let dcid = self.mgr.as_ref().unwrap().active_path().peer_connection_id.as_bytes().to_vec();
            let stale = self.dcid_problem(&dcid).is_some();
            self.m.stale_since_fallback = stale && (matches!(op, PmOp::Timer) || self.m.stale_since_fallback);
        }
        if !self.cfg.lazy {
            // the connection may address a packet to the active path's id at any time
            let dcid = self.mgr.as_ref().unwrap().active_path().peer_connection_id.as_bytes().to_vec();
            if matches!(op, PmOp::Timer) {
                // own clause name: `on_timeout` reactivates the last validated path through
                // `activate_path`, i.e. without the check `update_active_path` makes
                self.check_dcid_as("c13.pathmgr.fallback_uses_retired", "active path after the fallback to the last validated path", &dcid)?;
            } else {
                self.check_dcid("active path", &dcid)?;
            }
        }
        Ok(())
    }

    fn key(&self) -> u128 {
        let Some(mgr) = self.mgr.as_ref() else { return 0 };
        let all = format!("{:?}", mgr);
        let reg = debug_field(&all, "peer_id_registry: PeerIdRegistry {");
        let reg_own = reg.find("registered_ids").map(|i| &reg[i..]).unwrap_or(reg);
        let tail = all.rfind(", active: ").map(|i| &all[i..]).unwrap_or("");
        let mut paths = Vec::new();
        for (addr, p) in self.paths() {
            let path = &mgr[pm_path_id(p)];
            let d = format!("{:?}", path);
            paths.push((
                addr,
                p,
                path.peer_connection_id.as_bytes().to_vec(),
                path.local_connection_id.as_bytes().to_vec(),
                (path.is_validated(), path.is_active(), path.is_activated(), path.is_peer_validated()),
                (path.is_challenge_pending(), path.failed_validation(), path.is_response_pending(), path.at_amplification_limit()),
                debug_field(&d, "challenge: Challenge {").to_string(),
            ));
        }
        key128(&(
            reg_own,
            tail,
            paths,
            &self.m,
            &self.packets,
            self.now.saturating_duration_since(self.t0),
            self.rnd.0,
        ))
    }

    fn outcome(&self) -> u64 {
        let (n_paths, active) = match self.mgr.as_ref() {
            Some(mgr) => (self.paths().len() as u64, mgr.active_path_id().as_u8() as u64),
            None => (0, 0),
        };
        n_paths
            | active << 4
            | (self.m.issued.len() as u64) << 8
            | (self.m.retire_written.len() as u64) << 16
            | (self.m.closed.is_some() as u64) << 24
            | (self.m.used.len() as u64) << 32
    }
}

fn pm_cfg(tier: Tier, timer: bool) -> PmCfg {
    let lazy = std::env::var("VERIF_PATHMGR_LAZY").map_or(false, |v| v == "1");
    let mut cfg = match tier {
        Tier::Quick => PmCfg { depth: 8, addrs: 2, max_fresh: 1, bag_cap: 2, lazy, timer, wall: 25.0 },
        // a third address costs a factor of ~8 at equal depth
        Tier::Thorough if timer => PmCfg { depth: 10, addrs: 2, max_fresh: 1, bag_cap: 2, lazy, timer, wall: 150.0 },
        Tier::Thorough => PmCfg { depth: 9, addrs: 3, max_fresh: 1, bag_cap: 2, lazy, timer, wall: 220.0 },
    };
    // experimentation only (not set by /verif/check)
    if let Some(d) = std::env::var("VERIF_PATHMGR_DEPTH").ok().and_then(|d| d.parse().ok()) {
        cfg.depth = d;
    }
    if let Some(d) = std::env::var("VERIF_PATHMGR_ADDRS").ok().and_then(|d| d.parse().ok()) {
        cfg.addrs = d;
    }
    if let Some(d) = std::env::var("VERIF_PATHMGR_FRESH").ok().and_then(|d| d.parse().ok()) {
        cfg.max_fresh = d;
    }
    cfg
}

fn run_pathmgr(tier: Tier, timer: bool, out: &mut Output) {
    let cfg = pm_cfg(tier, timer);
    X_PM_CLOSED.lock().unwrap().clear();
    X_PM_PROBE_TO_RETIRED.store(0, Ordering::Relaxed);
    X_PM_STALE_ACTIVE_WITHOUT_REPLACEMENT.store(0, Ordering::Relaxed);
    let init = move || PmSys::new(cfg);
    let family = if timer { "c13.pathmgr_timer" } else { "c13.pathmgr" };
    let mut rep = explore(ENGINE, family, cfg.json(), &init, &Limits::depth(cfg.depth).wall(cfg.wall));
    rep.extra.push(("x_close_reasons".into(), X_PM_CLOSED.lock().unwrap().iter().cloned().collect::<Vec<String>>().into()));
    rep.extra.push(("x_probe_addressed_to_retired_id".into(), X_PM_PROBE_TO_RETIRED.load(Ordering::Relaxed).into()));
    rep.extra.push((
        "x_stale_active_id_without_replacement".into(),
        X_PM_STALE_ACTIVE_WITHOUT_REPLACEMENT.load(Ordering::Relaxed).into(),
    ));
    out.push(rep);
}

// =============================================================================================
// test entry points (run by /verif/check, see `run_mounted_engine`)
// =============================================================================================

/// `varlife` of the run that produced a replay file (so that a replay does not depend on the
/// environment of the replaying process)
fn replay_varlife() -> Option<(bool, u8)> {
    let path = std::env::var("VERIF_REPLAY").ok()?;
    let j = Json::parse(&std::fs::read_to_string(&path).ok()?).ok()?;
    let cfg = j.get("config")?;
    let varlife = matches!(cfg.get("varlife"), Some(Json::Bool(true)));
    let level = cfg.get("route_level").and_then(|l| l.as_i128()).unwrap_or(0) as u8;
    Some((varlife, level))
}

fn replay_requested(family: &str) -> Option<Option<Vec<u16>>> {
    let path = std::env::var("VERIF_REPLAY").ok()?;
    let text = std::fs::read_to_string(&path).expect("VERIF_REPLAY file readable");
    let j = Json::parse(&text).expect("VERIF_REPLAY is JSON");
    if j.get("family").and_then(|f| f.as_str()) != Some(family) {
        return Some(None);
    }
    let hist = j
        .get("history")
        .and_then(|h| h.as_arr())
        .expect("replay.history")
        .iter()
        .map(|x| x.as_i128().unwrap() as u16)
        .collect();
    Some(Some(hist))
}

fn print_replay(r: Result<Vec<String>, (Vec<String>, Violation)>) {
    match r {
        Ok(trace) => {
            for t in trace {
                println!("replay:   {}", t);
            }
            println!("replay: no violation");
        }
        Err((trace, v)) => {
            for t in trace {
                println!("replay:   {}", t);
            }
            println!("replay: VIOLATED {}: {}", v.clause, v.detail);
        }
    }
}

fn finish(out: Output, name: &str) {
    if let Ok(dir) = std::env::var("VERIF_OUT_DIR") {
        out.write_named(&dir, name);
    }
    let _ = std::panic::take_hook();
    let n: usize = out.reports.iter().map(|r| r.violations.len()).sum();
    assert_eq!(n, 0, "{} violation(s), see the [mc] lines above", n);
}

#[test]
fn c13_cid() {
    cid_test(false);
}

/// family c13.cid_starved (named so that the filter `verif_txmc_cid::c13_cid` does not match it)
#[test]
fn c13_starved_cid() {
    cid_test(true);
}

fn cid_test(starved: bool) {
    let tier = Tier::from_env();
    quiet_panics();
    if let Some(req) = replay_requested(if starved { "c13.cid_starved" } else { "c13.cid" }) {
        if let Some(hist) = req {
            let mut cfg = cid_cfg(tier, starved);
            // (the op lists of c13.cid_starved do not depend on the tier: only the depth differs)
            if let Some((v, l)) = replay_varlife() {
                cfg.varlife = v;
                cfg.route_level = l;
            }
            print_replay(replay_history(&move || CidSys::new(cfg), &hist));
        }
        let _ = std::panic::take_hook();
        return;
    }
    let mut out = Output::new();
    run_cid(tier, starved, &mut out);
    finish(out, if starved { "txmc_cid.c13_starved_cid" } else { "txmc_cid.c13_cid" });
}

#[test]
fn c13_peer_adversary() {
    let tier = Tier::from_env();
    quiet_panics();
    if let Some(req) = replay_requested("c13.peer_adversary") {
        if let Some(hist) = req {
            print_replay(replay_history(&|| AdvSys::new(), &hist));
        }
        let _ = std::panic::take_hook();
        return;
    }
    let mut out = Output::new();
    run_adv(tier, &mut out);
    finish(out, "txmc_cid.c13_peer_adversary");
}

fn pathmgr_test(timer: bool) {
    let tier = Tier::from_env();
    quiet_panics();
    let family = if timer { "c13.pathmgr_timer" } else { "c13.pathmgr" };
    if let Some(req) = replay_requested(family) {
        if let Some(hist) = req {
            let mut cfg = pm_cfg(tier, timer);
            if let Some(j) = std::env::var("VERIF_REPLAY").ok().and_then(|p| std::fs::read_to_string(p).ok()).and_then(|t| Json::parse(&t).ok()) {
                // bounds of the run that produced the replay file (the op lists depend on them)
                if let Some(c) = j.get("config") {
                    if let Some(a) = c.get("addrs").and_then(|a| a.as_i128()) {
                        cfg.addrs = a as u8;
                    }
                    if let Some(a) = c.get("max_fresh").and_then(|a| a.as_i128()) {
                        cfg.max_fresh = a as u8;
                    }
                    if let Some(a) = c.get("bag_cap").and_then(|a| a.as_i128()) {
                        cfg.bag_cap = a as usize;
                    }
                    cfg.lazy = matches!(c.get("lazy"), Some(Json::Bool(true)));
                }
            }
            print_replay(replay_history(&move || PmSys::new(cfg), &hist));
        }
        let _ = std::panic::take_hook();
        return;
    }
    let mut out = Output::new();
    run_pathmgr(tier, timer, &mut out);
    finish(out, if timer { "txmc_cid.c13_timer_pathmgr" } else { "txmc_cid.c13_pathmgr" });
}

/// Σ without `Timer`
#[test]
fn c13_pathmgr() {
    pathmgr_test(false);
}

/// Σ with `Timer` (named so that the filter `verif_txmc_cid::c13_pathmgr` does not match it)
#[test]
fn c13_timer_pathmgr() {
    pathmgr_test(true);
}

// txmc / recovery.rs  --  property C09 (loss detection sound, in-flight bookkeeping exact)
//
// Mounted into the unit-test build of s2n-quic-transport by hook H1
// (`#[cfg(all(test, aws_s2n_quic_verif))] #[path = ".../recovery.rs"] mod verif_txmc_recovery;`
// at the end of quic/s2n-quic-transport/src/lib.rs).  A crate-root child module is enough: every
// item used here (`recovery::Manager`, `recovery::Context`, `path::{Path, Manager}`,
// `connection::ConnectionIdMapper`, `endpoint::Config`) is `pub` or `pub(crate)`; no private
// field of the manager is read - the harness only uses the calls the packet-number spaces make
// (`on_packet_sent` + `on_transmit_burst_complete`, `on_ack_frame`, `on_timeout`,
// `on_packet_number_space_discarded`) and the public `timer::Provider` query.
//
// System under exploration: the REAL `recovery::Manager<Config>` with a REAL `path::Path` (real
// CUBIC congestion controller, real `RttEstimator`, real `Pto`, real MTU/ECN controllers) held in
// a real `path::Manager`, driven through an own `recovery::Context` implementation that records
// every `on_packet_ack` / `on_new_packet_ack` / `on_packet_loss` / `on_rtt_update` callback.
//
// Oracle: an independent transcription of RFC 9002 sections 5, 6 and Appendix A over the harness'
// own list of sent packets (pn, send time, size, ack-eliciting, in-flight, status).  The only
// values read back from the code under test *as inputs* of a rule are `smoothed_rtt`/`latest_rtt`
// ("the current RTT estimate" of the time-threshold rule; both are themselves range-checked
// against the harness' own samples by the RTT clauses) and the armed timer deadline.
//
// Clauses (stable names):
//   c09.lost_unsent          on_packet_loss names a packet number that was never sent
//   c09.resolved_twice       a packet is acknowledged/lost after it was already resolved
//   c09.pto_marks_lost       a timer expiry while the loss-time timer is not set per RFC 9002
//                            A.8-A.10 (= a PTO expiry) reported a loss           (RFC 9002 6.2)
//   c09.loss_unjustified     a loss without a later-sent acknowledged packet, or with neither the
//                            packet threshold (3) nor the time threshold reached (RFC 9002 6.1)
//   c09.loss_time_early      only with STRICT_TIME_THRESHOLD: loss justified only by the < 1 ms
//                            `has_elapsed` granularity slack (see below)
//   c09.ack_resolution       the packets reported newly acknowledged are not exactly the
//                            outstanding packets inside the ranges of the ACK frame
//   c09.bytes_in_flight      congestion controller's bytes_in_flight != sum of the sizes of the
//                            unresolved congestion-controlled packets
//   c09.latest_rtt           latest_rtt is not the most recent valid sample (RFC 9002 5.1)
//   c09.rtt_sample_spurious  latest_rtt changed although the ACK frame generates no sample
//   c09.min_rtt              min_rtt is not the minimum of the samples (RFC 9002 5.2)
//   c09.srtt_range           smoothed_rtt outside [min sample, max sample]
//   c09.pto_min              armed PTO period below kGranularity (1 ms)
//   c09.pto_backoff          armed PTO period is not (period at backoff 1) * min(2^k, cap) after
//                            k consecutive PTO expiries without a newly acknowledging ACK
//   c09.timeout_noop         on_timeout before the armed deadline (>= 1 ms early) had an effect
//   c09.removed_without_resolution  a packet is no longer tracked by the manager (`sent_packets`)
//                            although it was neither acknowledged, nor reported through
//                            `on_packet_loss`, nor discarded with its keys
//   c09.resolved_still_tracked  a packet the manager reported acknowledged/lost is still tracked
//
// Family c09.recovery_multipath (test `txmc_c09_recovery_multipath`): the same manager with TWO
// real paths (ids 0 = active, 1) whose RTT estimators were fed one sample each (1 s / 10 ms) before
// the exploration starts; packets of the one ApplicationData space are sent on either path and ACK
// frames arrive on either path.  Per-path rules as s2n-quic implements RFC 9000 9.4 ("Packets sent
// on the old path MUST NOT contribute to congestion control or RTT estimation for the new path"):
// the time threshold of a packet uses the estimator of the path it was SENT on
// (`detect_lost_packets`: `context.path_by_id(unacked_sent_info.path_id)`), an RTT sample is
// generated only if the ACK arrives on the path the largest newly acknowledged packet was sent on,
// bytes in flight are kept per path, PTO period/backoff are those of the active path and the
// backoff of a path is reset when an ACK newly acknowledges a packet sent on it.
//   step.panic               any debug_assert!/check_consistency/overflow panic of the repo code
#![allow(dead_code, unused_imports, clippy::all)]

#[path = "/verif/engines/mccore/mccore.rs"]
mod mccore;

use self::mccore::*;
use crate::{
    connection::{self, limits::ANTI_AMPLIFICATION_MULTIPLIER, ConnectionIdMapper, InternalConnectionIdGenerator},
    endpoint, path, recovery, transmission,
};
use core::time::Duration;
use s2n_quic_core::{
    ack,
    event::{self, testing::Publisher},
    frame,
    frame::ack_elicitation::AckElicitation,
    inet::ExplicitCongestionNotification,
    packet::number::{PacketNumber, PacketNumberRange, PacketNumberSpace},
    path::{mtu, RemoteAddress},
    random,
    recovery::{CongestionController as _, CubicCongestionController, RttEstimator},
    time::{timer::Provider as _, Timestamp},
    transport,
    varint::VarInt,
};
use std::sync::atomic::{AtomicU64, Ordering};

/// `loss::detect` compares with `Timestamp::has_elapsed(now)`, which is `deadline < now + 1 ms`
/// (quic/s2n-quic-core/src/time/timestamp.rs, "even if the timestamp is less than the timer
/// granularity in the future, consider it elapsed").  A packet is therefore declared lost when
/// `now - time_sent > 9/8 * max(srtt, latest) - 1 ms`, i.e. up to (excluding) 1 ms = kGranularity
/// earlier than the rule of the property.  This is deliberate in-tree (unit test
/// `packet_declared_lost_less_than_1_ms_from_loss_threshold`) and below the resolution the RFC
/// grants timers, so by default it is ALLOWED, narrowly: at most 1 ms, only on the time
/// threshold, and every use is counted in the report (`x_time_slack_losses`).  Set to `true` to
/// make each such loss a violation `c09.loss_time_early`.
const STRICT_TIME_THRESHOLD: bool = false;
/// clock resolution of `Timestamp` (1 us): `time_sent + threshold` is truncated to microseconds
const CLOCK_RESOLUTION_NS: u128 = 1_000;
const GRANULARITY_NS: u128 = 1_000_000;

const T0_US: u64 = 1_000_000; // harness time 0 = Timestamp 1 s
const MAX_ACK_DELAY_MS: u64 = 25;
const PTO_BACKOFF_CAP: u32 = 8;
const K_PACKET_THRESHOLD: u64 = 3; // RFC 9002 6.1.1
const INITIAL_RTT_US: u64 = 333_000; // RFC 9002 6.2.2

// Evidence counters (never part of a verdict).  `step` records what happened in the *current*
// step in `Rec::tally`; `key()` - which the explorer calls exactly once per explored transition and
// never while it rebuilds a state by replay - adds the tally to the globals, so the totals are
// "events over the explored transitions" and identical from run to run.
static TIME_SLACK_LOSSES: AtomicU64 = AtomicU64::new(0);
static PTO_EXPIRIES: AtomicU64 = AtomicU64::new(0);
static LOSSES: AtomicU64 = AtomicU64::new(0);
static RTT_SAMPLES: AtomicU64 = AtomicU64::new(0);

// ---------------------------------------------------------------------------------------------
// endpoint configuration: the crate's testing server config, but with the REAL CUBIC controller
// ---------------------------------------------------------------------------------------------

#[derive(Debug)]
pub struct Server;

impl endpoint::Config for Server {
    type CongestionControllerEndpoint = s2n_quic_core::recovery::cubic::Endpoint;
    type TLSEndpoint = s2n_quic_core::crypto::tls::testing::Endpoint;
    type PathHandle = s2n_quic_core::path::RemoteAddress;
    type Connection = connection::Implementation<Self>;
    type ConnectionLock = std::sync::Mutex<Self::Connection>;
    type EndpointLimits = endpoint::testing::Limits;
    type ConnectionIdFormat = s2n_quic_core::connection::id::testing::Format;
    type StatelessResetTokenGenerator = s2n_quic_core::stateless_reset::token::testing::Generator;
    type RandomGenerator = random::testing::Generator;
    type TokenFormat = s2n_quic_core::token::testing::Format;
    type ConnectionLimits = s2n_quic_core::connection::limits::Limits;
    type Mtu = s2n_quic_core::path::mtu::Config;
    type StreamManager = crate::stream::DefaultStreamManager;
    type ConnectionCloseFormatter = s2n_quic_core::connection::close::Development;
    type EventSubscriber = s2n_quic_core::event::testing::Subscriber;
    type PathMigrationValidator = s2n_quic_core::path::migration::allow_all::Validator;
    type PacketInterceptor = s2n_quic_core::packet::interceptor::Disabled;
    type DatagramEndpoint = s2n_quic_core::datagram::Disabled;
    type DcEndpoint = s2n_quic_core::dc::testing::MockDcEndpoint;

    fn context(&mut self) -> endpoint::Context<'_, Self> {
        unimplemented!("the recovery harness never asks for an endpoint context")
    }

    const ENDPOINT_TYPE: s2n_quic_core::endpoint::Type = s2n_quic_core::endpoint::Type::Server;
}

type Manager = recovery::Manager<Server>;
type PathManager = path::Manager<Server>;

// ---------------------------------------------------------------------------------------------
// recording recovery::Context
// ---------------------------------------------------------------------------------------------

#[derive(Clone, Debug, PartialEq)]
enum Ev {
    /// on_packet_ack: raw range of the frame
    Ack(u64, u64),
    /// on_new_packet_ack: hull of the newly acknowledged packets of one frame range
    NewAck(u64, u64),
    Loss(u64, u64),
    RttUpdate,
}

struct Ctx<'a> {
    pm: &'a mut PathManager,
    /// the path the packet is sent on / the ACK frame was received on
    pid: path::Id,
    confirmed: bool,
    events: Vec<Ev>,
}

impl recovery::Context<Server> for Ctx<'_> {
    const ENDPOINT_TYPE: s2n_quic_core::endpoint::Type = s2n_quic_core::endpoint::Type::Server;

    fn is_handshake_confirmed(&self) -> bool {
        self.confirmed
    }
    fn active_path(&self) -> &path::Path<Server> {
        self.pm.active_path()
    }
    fn active_path_mut(&mut self) -> &mut path::Path<Server> {
        self.pm.active_path_mut()
    }
    fn path(&self) -> &path::Path<Server> {
        &self.pm[self.pid]
    }
    fn path_mut(&mut self) -> &mut path::Path<Server> {
        &mut self.pm[self.pid]
    }
    fn path_by_id(&self, path_id: path::Id) -> &path::Path<Server> {
        &self.pm[path_id]
    }
    fn path_mut_by_id(&mut self, path_id: path::Id) -> &mut path::Path<Server> {
        &mut self.pm[path_id]
    }
    fn path_id(&self) -> path::Id {
        self.pid
    }
    fn validate_packet_ack(
        &mut self,
        _timestamp: Timestamp,
        _packet_number_range: &PacketNumberRange,
        _lowest_tracking_packet_number: PacketNumber,
    ) -> Result<(), transport::Error> {
        Ok(())
    }
    fn on_new_packet_ack<Pub: event::ConnectionPublisher>(&mut self, r: &PacketNumberRange, _publisher: &mut Pub) {
        self.events.push(Ev::NewAck(r.start().as_u64(), r.end().as_u64()));
    }
    fn on_packet_ack(&mut self, _timestamp: Timestamp, r: &PacketNumberRange) {
        self.events.push(Ev::Ack(r.start().as_u64(), r.end().as_u64()));
    }
    fn on_packet_loss<Pub: event::ConnectionPublisher>(&mut self, r: &PacketNumberRange, _publisher: &mut Pub) {
        self.events.push(Ev::Loss(r.start().as_u64(), r.end().as_u64()));
    }
    fn on_rtt_update(&mut self, _now: Timestamp) {
        self.events.push(Ev::RttUpdate);
    }
    fn on_mtu_update(&mut self, _max_datagram_size: u16) {}
}

// ---------------------------------------------------------------------------------------------
// harness
// ---------------------------------------------------------------------------------------------

#[derive(Clone, Copy, Debug, PartialEq, Eq, Hash)]
enum St {
    Out,
    Acked,
    Lost,
    Discarded,
}

#[derive(Clone, Debug, Hash)]
struct Pkt {
    pn: u64,
    /// index of the path it was sent on
    path: usize,
    t_sent: u64,
    size: u16,
    eliciting: bool,
    /// counts towards bytes in flight
    cc: bool,
    st: St,
    /// named in the range of some processed ACK frame (independent of how it was resolved: a
    /// packet declared lost can still be acknowledged by a late ACK frame)
    peer_acked: bool,
}

#[derive(Clone, Copy, Debug, PartialEq, Eq, Hash)]
pub enum Len {
    One,
    Two,
    AllBelow,
}

#[derive(Clone, Debug, PartialEq, Eq, Hash)]
pub enum Op {
    /// `on_packet_sent` + `on_transmit_burst_complete`, as space/application.rs does
    Send { eliciting: bool, size: u16 },
    /// advance the clock (no call into the manager)
    Tick { us: u64 },
    /// advance the clock to the armed deadline (if it is in the future) and call `on_timeout`
    FireTimer,
    /// ACK frame with one contiguous range ending at `largest`
    Ack { largest: u64, len: Len, delay_us: u64 },
    /// the previous ACK frame again, at the current time
    DupLastAck,
    /// `on_timeout` although no deadline is due (another timer of the connection fired)
    EarlyTimeout,
    /// keys of the space discarded: `on_packet_number_space_discarded` (Handshake space only)
    DiscardSpace,
    /// multipath family: `Send` on path `path`
    SendOn { path: usize, eliciting: bool, size: u16 },
    /// multipath family: `Ack` (ack_delay 0) received on path `rx`
    AckOn { largest: u64, len: Len, rx: usize },
}

#[derive(Clone, Debug)]
pub struct Cfg {
    pub family: &'static str,
    pub space: PacketNumberSpace,
    pub confirmed: bool,
    pub max_packets: usize,
    pub sizes_non_eliciting: &'static [u16],
    pub ticks_us: &'static [u64],
    pub delays_us: &'static [u64],
    /// multipath family: one RTT sample fed to the estimator of each path before the exploration
    /// (empty = single-path family: one path, estimator at its initial value)
    pub preset_rtt_us: &'static [u64],
    pub sizes_eliciting: &'static [u16],
}

impl Cfg {
    fn json(&self, depth: usize) -> Json {
        Json::obj()
            .set("family", self.family)
            .set("space", format!("{:?}", self.space))
            .set("handshake_confirmed", self.confirmed)
            .set("depth", depth)
            .set("max_packets", self.max_packets)
            .set("ticks_us", self.ticks_us.to_vec())
            .set("ack_delays_us", self.delays_us.to_vec())
            .set("sizes_non_eliciting", self.sizes_non_eliciting.iter().map(|&s| s as u64).collect::<Vec<u64>>())
            .set("pto_backoff_cap", PTO_BACKOFF_CAP)
            .set("peer_max_ack_delay_ms", MAX_ACK_DELAY_MS)
            .set("strict_time_threshold", STRICT_TIME_THRESHOLD)
            .set("paths_preset_rtt_us", self.preset_rtt_us.to_vec())
            .set("sizes_eliciting", self.sizes_eliciting.iter().map(|&s| s as u64).collect::<Vec<u64>>())
    }
}

const TICKS: &[u64] = &[1_000, 12_500, 100_000, 300_000];

fn cfg_app(tier: Tier) -> Cfg {
    Cfg {
        family: "c09.recovery",
        space: PacketNumberSpace::ApplicationData,
        confirmed: true,
        max_packets: tier.pick(5, 6),
        // the size of a packet that is not congestion controlled is ignored by the manager
        // (`congestion_controlled_bytes = 0`), one size is enough
        sizes_non_eliciting: &[100],
        ticks_us: TICKS,
        delays_us: &[0, 5_000],
        preset_rtt_us: &[],
        sizes_eliciting: &[100, 1200],
    }
}

fn cfg_hs(tier: Tier) -> Cfg {
    Cfg {
        family: "c09.recovery_hs",
        space: PacketNumberSpace::Handshake,
        confirmed: false,
        max_packets: tier.pick(4, 5),
        // 100: ACK-only (not in flight); 1200: ACK + PADDING (in flight although not ack-eliciting)
        sizes_non_eliciting: &[100, 1200],
        ticks_us: tier.pick(&[1_000, 100_000], &[1_000, 12_500, 100_000]),
        delays_us: &[0],
        preset_rtt_us: &[],
        sizes_eliciting: &[100, 1200],
    }
}

/// Two paths, path 0 (active) RTT 1 s, path 1 RTT 10 ms.  Ticks 1 ms / 10 ms / 90 ms / 1 s place
/// packets below, between and above the two time thresholds (11.25 ms and 1.125 s).
fn cfg_mp(tier: Tier) -> Cfg {
    Cfg {
        family: "c09.recovery_multipath",
        space: PacketNumberSpace::ApplicationData,
        confirmed: true,
        max_packets: tier.pick(5, 6),
        sizes_non_eliciting: &[],
        ticks_us: &[1_000, 10_000, 90_000, 1_000_000],
        delays_us: &[0],
        preset_rtt_us: &[1_000_000, 10_000],
        // one size: with two the depth-7 space (> 5 M states) does not complete within the thorough budget
        sizes_eliciting: &[1200],
    }
}

pub struct Rec {
    cfg: Cfg,
    mgr: Manager,
    pm: PathManager,
    rng: random::testing::Generator,
    // ---- harness bookkeeping / reference model ----
    now: u64,
    pkts: Vec<Pkt>,
    /// RFC 9002 A.3 largest_acked_packet: max over the Largest Acknowledged of all processed frames
    largest_acked: Option<u64>,
    /// RFC 9002 A.8-A.10: the loss-time timer is set by DetectAndRemoveLostPackets (which runs
    /// when an ACK newly acknowledges a packet and when that timer expires) iff a packet sent
    /// before the largest acknowledged one remains unresolved; an armed timer is otherwise the PTO
    loss_mode: bool,
    /// ids of the paths (index = `Pkt::path`)
    ids: Vec<path::Id>,
    /// per path: RTT samples since the estimator was (possibly) reset by persistent congestion
    samples: Vec<Vec<u64>>,
    /// per path: persistent congestion may have been established since the last sample (RFC 9002 5.2)
    pc_possible: Vec<bool>,
    last_ack: Option<(u64, u64, u64)>,
    ack_frames: u64,
    /// consecutive PTO expiries since the last ACK that newly acknowledged a packet
    pto_k: u32,
    /// PTO period at backoff 1 for the current RTT state
    pto_unit: Option<u64>,
    /// time the most recent ack-eliciting packet was sent
    last_eliciting_sent: Option<u64>,
    discarded: bool,
    n_lost: u32,
    n_pto: u32,
    /// events of the current step: [time-slack losses, losses, PTO expiries, RTT samples]
    tally: [u64; 4],
}

fn ts(us: u64) -> Timestamp {
    unsafe { Timestamp::from_duration(Duration::from_micros(T0_US + us)) }
}

fn ts_us(t: Timestamp) -> i128 {
    unsafe { t.as_duration() }.as_micros() as i128 - T0_US as i128
}

impl Rec {
    pub fn new(cfg: Cfg) -> Rec {
        let mut rng = random::testing::Generator(123);
        let registry = ConnectionIdMapper::new(&mut rng, s2n_quic_core::endpoint::Type::Server).create_server_peer_id_registry(
            InternalConnectionIdGenerator::new().generate_id(),
            connection::PeerId::TEST_ID,
            true,
        );
        let mut rtt = RttEstimator::default();
        rtt.on_max_ack_delay(Duration::from_millis(MAX_ACK_DELAY_MS).try_into().unwrap());
        let cc = CubicCongestionController::new(1200, Default::default());
        let p = path::Path::<Server>::new(
            RemoteAddress::default(),
            connection::PeerId::TEST_ID,
            connection::LocalId::TEST_ID,
            rtt,
            cc,
            true, // peer validated
            mtu::Config::default(),
            ANTI_AMPLIFICATION_MULTIPLIER,
            0, // no PTO jitter: the deadline is a function of the state
        );
        let mut pm = PathManager::new(p, registry);
        // a received Handshake packet validates the path: no amplification limit
        pm.active_path_mut().on_handshake_packet();
        let mut ids = vec![pm.active_path_id()];
        if cfg.preset_rtt_us.len() == 2 {
            // second path: a datagram from a new peer address after the handshake is confirmed
            // (the way recovery/manager/tests.rs builds its two-path manager), then validated
            let addr: std::net::SocketAddr = "127.0.0.2:80".parse().unwrap();
            let addr = RemoteAddress::from(s2n_quic_core::inet::SocketAddress::from(addr));
            let datagram = s2n_quic_core::inet::DatagramInfo {
                timestamp: ts(0),
                payload_len: 1200,
                ecn: ExplicitCongestionNotification::default(),
                destination_connection_id: connection::LocalId::TEST_ID,
                destination_connection_id_classification: s2n_quic_core::connection::id::Classification::Local,
                source_connection_id: None,
            };
            let (id, _) = pm
                .on_datagram_received(
                    &addr,
                    &datagram,
                    true,
                    &mut s2n_quic_core::recovery::cubic::Endpoint::default(),
                    &mut s2n_quic_core::path::migration::allow_all::Validator,
                    &mut mtu::Manager::new(mtu::Config::default()),
                    &s2n_quic_core::connection::Limits::default(),
                    &mut Publisher::no_snapshot(),
                )
                .expect("second path");
            pm[id].on_handshake_packet();
            assert!(pm[id].is_peer_validated() && !pm[id].at_amplification_limit() && pm.active_path_id() == ids[0]);
            ids.push(id);
        }
        let mut samples = vec![Vec::new(); ids.len()];
        for (i, &us) in cfg.preset_rtt_us.iter().enumerate() {
            // the history before the exploration: one RTT sample per path
            pm[ids[i]].rtt_estimator.update_rtt(Duration::ZERO, Duration::from_micros(us), ts(0), cfg.confirmed, cfg.space);
            samples[i].push(us);
        }
        let npaths = ids.len();
        Rec {
            mgr: Manager::new(cfg.space),
            cfg,
            pm,
            rng,
            now: 0,
            pkts: Vec::new(),
            largest_acked: None,
            loss_mode: false,
            ids,
            samples,
            pc_possible: vec![false; npaths],
            last_ack: None,
            ack_frames: 0,
            pto_k: 0,
            pto_unit: None,
            last_eliciting_sent: None,
            discarded: false,
            n_lost: 0,
            n_pto: 0,
            tally: [0; 4],
        }
    }

    fn deadline(&self) -> Option<i128> {
        self.mgr.next_expiration().map(ts_us)
    }

    /// unresolved packets sent before the largest acknowledged one
    fn loss_candidates(&self) -> bool {
        match self.largest_acked {
            Some(l) => self.pkts.iter().any(|p| p.st == St::Out && p.pn < l),
            None => false,
        }
    }

    fn rtt(&self, path: usize) -> &RttEstimator {
        &self.pm[self.ids[path]].rtt_estimator
    }

    fn model_bytes_in_flight(&self, path: usize) -> u64 {
        self.pkts.iter().filter(|p| p.st == St::Out && p.cc && p.path == path).map(|p| p.size as u64).sum()
    }

    /// packet numbers the manager still tracks, read from its `Debug` rendering (`sent_packets`
    /// is private to `recovery::manager`; `packet::number::Map` prints as a map keyed by
    /// `PacketNumber(<space>, <n>)` and no other packet number occurs inside the entries)
    fn tracked(&self) -> Result<Vec<u64>, Violation> {
        let d = format!("{:?}", self.mgr);
        let (Some(a), Some(b)) = (d.find("sent_packets: {"), d.find(", loss_timer: ")) else {
            return violation("machinery.debug_format", "Manager Debug rendering has no `sent_packets: {..}, loss_timer:` section");
        };
        let mut out = Vec::new();
        let mut rest = &d[a..b];
        while let Some(i) = rest.find("PacketNumber(") {
            rest = &rest[i + "PacketNumber(".len()..];
            let end = rest.find(')').unwrap_or(0);
            let n = rest[..end].rsplit(", ").next().and_then(|t| t.parse::<u64>().ok());
            match n {
                Some(n) => out.push(n),
                None => return violation("machinery.debug_format", format!("cannot parse packet number in {:?}", &rest[..end.min(40)])),
            }
        }
        Ok(out)
    }

    /// every packet leaves `sent_packets` through exactly one of: acknowledgement, `on_packet_loss`
    /// callback, discard of the space
    fn check_tracked(&self) -> Result<(), Violation> {
        if self.discarded {
            return Ok(());
        }
        let tracked = self.tracked()?;
        for p in &self.pkts {
            let t = tracked.contains(&p.pn);
            ensure(t || p.st != St::Out, "c09.removed_without_resolution", || {
                format!("pn {} (path {}, sent at {} us) is no longer tracked by the manager but was neither acknowledged nor reported lost nor discarded; tracked: {:?}", p.pn, p.path, p.t_sent, tracked)
            })?;
            ensure(!t || p.st == St::Out, "c09.resolved_still_tracked", || format!("pn {} was reported {:?} but is still tracked by the manager", p.pn, p.st))?;
        }
        Ok(())
    }

    // -------------------------------------------------------------------------------------
    // oracle pieces
    // -------------------------------------------------------------------------------------

    /// apply the callbacks recorded during one call to the model; `frame` = (lo, hi) of the ACK
    /// frame being processed, `timer_kind_pto` = this step was a timer expiry in PTO mode
    fn digest(&mut self, events: &[Ev], frame: Option<(u64, u64)>, pto_expiry: bool, detection_on_timer: bool) -> Result<(), Violation> {
        // 1. acknowledgements
        let expected_new: Vec<u64> = match frame {
            Some((lo, hi)) => self.pkts.iter().filter(|p| p.st == St::Out && p.pn >= lo && p.pn <= hi).map(|p| p.pn).collect(),
            None => Vec::new(),
        };
        let mut reported_new: Vec<u64> = Vec::new();
        for ev in events {
            if let Ev::NewAck(a, b) = ev {
                ensure(frame.is_some(), "c09.ack_resolution", || format!("on_new_packet_ack({a}..={b}) outside ACK processing"))?;
                for pn in *a..=*b {
                    let Some(p) = self.pkts.iter_mut().find(|p| p.pn == pn) else {
                        // the reported range is the hull [first newly acked, last newly acked]; a
                        // number inside it that was never sent cannot exist (numbers are dense)
                        return violation("c09.ack_resolution", format!("on_new_packet_ack({a}..={b}) covers pn {pn} which was never sent"));
                    };
                    match p.st {
                        St::Out => {
                            p.st = St::Acked;
                            reported_new.push(pn);
                        }
                        // already acknowledged earlier and merely inside the hull
                        St::Acked => {
                            ensure(pn != *a && pn != *b, "c09.resolved_twice", || format!("pn {pn} reported newly acknowledged twice (hull {a}..={b})"))?;
                        }
                        St::Lost | St::Discarded => {
                            return violation("c09.resolved_twice", format!("pn {pn} acknowledged (hull {a}..={b}) after it was {:?}", p.st));
                        }
                    }
                }
            }
        }
        reported_new.sort_unstable();
        ensure(reported_new == expected_new, "c09.ack_resolution", || {
            format!("frame range {:?}: outstanding packets in range {:?} but reported newly acknowledged {:?}", frame, expected_new, reported_new)
        })?;
        if let Some((lo, hi)) = frame {
            self.largest_acked = Some(self.largest_acked.map_or(hi, |l| l.max(hi)));
            for p in self.pkts.iter_mut().filter(|p| p.pn >= lo && p.pn <= hi) {
                p.peer_acked = true;
            }
        }

        // 2. losses
        let mut lost_now: Vec<usize> = Vec::new();
        for ev in events {
            if let Ev::Loss(a, b) = ev {
                for pn in *a..=*b {
                    let Some(i) = self.pkts.iter().position(|p| p.pn == pn) else {
                        return violation("c09.lost_unsent", format!("on_packet_loss({a}..={b}): pn {pn} was never sent"));
                    };
                    let p = self.pkts[i].clone();
                    // the estimator of the path the packet was sent on
                    let (srtt_ns, latest_ns) = (self.rtt(p.path).smoothed_rtt().as_nanos(), self.rtt(p.path).latest_rtt().as_nanos());
                    ensure(p.st == St::Out, "c09.resolved_twice", || format!("pn {pn} declared lost but it was already {:?}", p.st))?;
                    ensure(!pto_expiry, "c09.pto_marks_lost", || {
                        format!("PTO expiry (loss-time timer not set; largest acked {:?}) declared pn {pn} lost", self.largest_acked)
                    })?;
                    // RFC 9002 6.1: "The packet is unacknowledged, in flight, and was sent prior to an
                    // acknowledged packet."
                    let later_acked = self.pkts.iter().any(|q| q.peer_acked && q.pn > pn && q.t_sent >= p.t_sent);
                    ensure(later_acked, "c09.loss_unjustified", || format!("pn {pn} declared lost but no packet sent after it has been acknowledged"))?;
                    let largest = self.largest_acked.unwrap_or(0);
                    // 6.1.1 packet threshold
                    let by_pn = largest >= pn + K_PACKET_THRESHOLD;
                    // 6.1.2 time threshold: max(9/8 * max(smoothed_rtt, latest_rtt), kGranularity)
                    let x = srtt_ns.max(latest_ns);
                    let elapsed_ns = (self.now - p.t_sent) as u128 * 1_000;
                    let reached = |slack: u128| 8 * (elapsed_ns + slack) >= 9 * x && elapsed_ns + slack >= GRANULARITY_NS;
                    let by_time_strict = reached(CLOCK_RESOLUTION_NS);
                    // `<` of has_elapsed: strictly less than one granule early
                    let by_time_slack = reached(CLOCK_RESOLUTION_NS + GRANULARITY_NS - 1);
                    if !by_pn && !by_time_strict && by_time_slack {
                        self.tally[0] += 1;
                        ensure(!STRICT_TIME_THRESHOLD, "c09.loss_time_early", || {
                            format!(
                                "pn {pn} declared lost {} us after it was sent; largest acked {largest}; 9/8*max(srtt {} ns, latest {} ns) not reached (only within the 1 ms has_elapsed slack)",
                                self.now - p.t_sent, srtt_ns, latest_ns
                            )
                        })?;
                    }
                    ensure(by_pn || by_time_slack, "c09.loss_unjustified", || {
                        format!(
                            "pn {pn} declared lost {} us after it was sent with largest acked {largest} (< pn+3) and 9/8*max(srtt {} ns, latest {} ns) (min 1 ms) not reached",
                            self.now - p.t_sent, srtt_ns, latest_ns
                        )
                    })?;
                    self.pkts[i].st = St::Lost;
                    self.n_lost += 1;
                    self.tally[1] += 1;
                    lost_now.push(i);
                }
            }
        }

        // DetectAndRemoveLostPackets ran (A.7: only when the frame newly acknowledged something;
        // A.9: loss-time timer expiry): it (re)sets or clears the loss-time timer
        if !reported_new.is_empty() || detection_on_timer {
            self.loss_mode = self.loss_candidates();
        }

        // 3. could this loss report have established persistent congestion (RFC 9002 7.6)?  Two
        // ack-eliciting packets declared lost, sent after the first RTT sample, none of the packets
        // sent between them acknowledged, spanning more than
        // (smoothed_rtt + max(4*rttvar, kGranularity) + max_ack_delay) * 3.  The estimator then MAY
        // restart min_rtt (5.2 "SHOULD set the min_rtt to the newest RTT sample").  The in-tree
        // threshold is computed in whole milliseconds, hence the 6 ms margin.
        // Per path (s2n-quic evaluates it for the path the ACK arrived on only; the allowance is
        // granted for any path).
        for path in 0..self.ids.len() {
            if lost_now.len() < 2 || self.samples[path].is_empty() {
                continue;
            }
            let r = *self.rtt(path);
            let dur_us = (r.smoothed_rtt().as_micros() as u64 + (4 * r.rttvar().as_micros() as u64).max(1_000) + r.max_ack_delay().as_micros() as u64) * 3;
            let el: Vec<&Pkt> = lost_now.iter().map(|&i| &self.pkts[i]).filter(|p| p.eliciting && p.path == path).collect();
            let mut possible = false;
            for a in &el {
                for b in &el {
                    if b.pn > a.pn
                        && b.t_sent - a.t_sent + 6_000 > dur_us
                        && !self.pkts.iter().any(|q| q.pn > a.pn && q.pn < b.pn && q.st == St::Acked)
                    {
                        possible = true;
                    }
                }
            }
            if possible {
                self.pc_possible[path] = true;
            }
        }
        Ok(())
    }

    fn check_bytes_in_flight(&self) -> Result<(), Violation> {
        for path in 0..self.ids.len() {
            let real = self.pm[self.ids[path]].congestion_controller.bytes_in_flight() as u64;
            let model = self.model_bytes_in_flight(path);
            ensure(real == model, "c09.bytes_in_flight", || {
                format!(
                    "path {path}: congestion controller bytes_in_flight {real} != {model} = sum of unresolved in-flight packets sent on it {:?}",
                    self.pkts.iter().filter(|p| p.st == St::Out && p.cc && p.path == path).map(|p| (p.pn, p.size)).collect::<Vec<_>>()
                )
            })?;
        }
        Ok(())
    }

    /// RFC 9002 6.2.1 on the armed deadline
    fn check_pto(&mut self) -> Result<(), Violation> {
        if self.discarded || self.loss_mode {
            return Ok(());
        }
        let Some(d) = self.deadline() else { return Ok(()) };
        let Some(base) = self.last_eliciting_sent else { return Ok(()) };
        let period = d - base as i128;
        ensure(period >= 1_000, "c09.pto_min", || format!("PTO armed {period} us after the last ack-eliciting packet was sent (kGranularity is 1000 us)"))?;
        let mult = (1u64 << self.pto_k.min(31)).min(PTO_BACKOFF_CAP as u64) as i128;
        match self.pto_unit {
            None => {
                // first observation for this RTT state; only possible with backoff 1 because every
                // expiry is preceded by an observation
                ensure(self.pto_k == 0, "machinery.pto_tracking", || "PTO unit unknown with k > 0".to_string())?;
                self.pto_unit = Some(period as u64);
            }
            Some(unit) => {
                ensure(period == unit as i128 * mult, "c09.pto_backoff", || {
                    format!("after {} consecutive PTO expiries the armed PTO period is {period} us; expected {unit} us * min(2^{}, {PTO_BACKOFF_CAP}) = {} us", self.pto_k, self.pto_k, unit as i128 * mult)
                })?;
            }
        }
        Ok(())
    }

    fn after_step(&mut self) -> Result<(), Violation> {
        self.check_tracked()?;
        self.check_bytes_in_flight()?;
        self.check_pto()
    }

    // -------------------------------------------------------------------------------------
    // operations
    // -------------------------------------------------------------------------------------

    fn do_send(&mut self, path: usize, eliciting: bool, size: u16) -> Result<(), Violation> {
        let pn = self.pkts.len() as u64;
        // s2n-quic: a packet is congestion controlled iff it carries an ack-eliciting or PADDING
        // frame; the non-eliciting packets of this alphabet are ACK-only packets (RFC 9002 7:
        // "packets containing only ACK frames do not count towards bytes in flight")
        // ... except the padded ACK-only packet (ACK + PADDING, e.g. a client's Initial ACK padded to
        // 1200 bytes): not ack-eliciting but congestion controlled. A non-eliciting `size` of 1200
        // and more stands for it.
        let cc = eliciting || size >= 1200;
        let outcome = transmission::Outcome {
            ack_elicitation: if eliciting { AckElicitation::Eliciting } else { AckElicitation::NonEliciting },
            is_congestion_controlled: cc,
            bytes_sent: size as usize,
            bytes_progressed: 0,
        };
        let now = ts(self.now);
        let mut publisher = Publisher::no_snapshot();
        let events = {
            let mut ctx = Ctx { pm: &mut self.pm, pid: self.ids[path], confirmed: self.cfg.confirmed, events: Vec::new() };
            self.mgr.on_packet_sent(
                self.cfg.space.new_packet_number(VarInt::new(pn).unwrap()),
                outcome,
                now,
                ExplicitCongestionNotification::default(),
                transmission::Mode::Normal,
                Some(false),
                &mut ctx,
                &mut publisher,
            );
            ctx.events
        };
        self.mgr.on_transmit_burst_complete(self.pm.active_path(), now, self.cfg.confirmed, &mut self.rng);
        self.pkts.push(Pkt { pn, path, t_sent: self.now, size, eliciting, cc, st: St::Out, peer_acked: false });
        if eliciting {
            self.last_eliciting_sent = Some(self.now);
        }
        self.digest(&events, None, false, false)?;
        self.after_step()
    }

    fn do_ack(&mut self, largest: u64, lo: u64, delay_us: u64, rx: usize) -> Result<(), Violation> {
        let space = self.cfg.space;
        let before: Vec<RttEstimator> = (0..self.ids.len()).map(|i| *self.rtt(i)).collect();
        // RFC 9002 5.1: a sample is generated iff the largest acknowledged packet is newly
        // acknowledged and at least one newly acknowledged packet was ack-eliciting
        let largest_newly = self.pkts.iter().any(|p| p.pn == largest && p.st == St::Out);
        let any_eliciting_newly = self.pkts.iter().any(|p| p.st == St::Out && p.pn >= lo && p.pn <= largest && p.eliciting);
        let any_newly = self.pkts.iter().any(|p| p.st == St::Out && p.pn >= lo && p.pn <= largest);
        // RFC 9000 9.4: "Packets sent on the old path MUST NOT contribute to congestion control or
        // RTT estimation for the new path" - an ACK received on another path than the one the
        // largest acknowledged packet was sent on yields no sample
        let largest_path = self.pkts.iter().find(|p| p.pn == largest).map(|p| p.path);
        let same_path = largest_path == Some(rx);
        let newly_on_active = self.pkts.iter().any(|p| p.st == St::Out && p.pn >= lo && p.pn <= largest && p.path == 0);
        let sample = if largest_newly && any_eliciting_newly && same_path {
            let t_sent = self.pkts.iter().find(|p| p.pn == largest).unwrap().t_sent;
            // Timestamp has 1 us resolution: a sample below the clock resolution reads as 1 us
            Some((self.now - t_sent).max(1))
        } else {
            None
        };

        let mut ranges = ack::Ranges::default();
        ranges
            .insert_packet_number_range(PacketNumberRange::new(
                space.new_packet_number(VarInt::new(lo).unwrap()),
                space.new_packet_number(VarInt::new(largest).unwrap()),
            ))
            .expect("one range fits");
        let f = frame::Ack { ack_delay: VarInt::new(delay_us).unwrap(), ack_ranges: &ranges, ecn_counts: None };
        self.ack_frames += 1;
        let carrier = space.new_packet_number(VarInt::new(1000 + self.ack_frames).unwrap());
        let now = ts(self.now);
        let mut publisher = Publisher::no_snapshot();
        let (res, events) = {
            let mut ctx = Ctx { pm: &mut self.pm, pid: self.ids[rx], confirmed: self.cfg.confirmed, events: Vec::new() };
            let res = self.mgr.on_ack_frame(now, f, carrier, &mut self.rng, &mut ctx, &mut publisher);
            (res, ctx.events)
        };
        ensure(res.is_ok(), "machinery.ack_rejected", || format!("on_ack_frame returned {:?}", res))?;
        self.last_ack = Some((largest, lo, delay_us));

        if any_newly && newly_on_active {
            // RFC 9002 6.2.1 / A.7: "The PTO backoff factor is reset when an acknowledgment is
            // received" (server: always); the RTT state may have changed as well.  With several
            // paths the backoff (like the RTT state) is kept per path and the PTO uses the active
            // path (index 0): it restarts when a packet sent on that path is newly acknowledged.
            self.pto_k = 0;
            self.pto_unit = None;
        }
        self.digest(&events, Some((lo, largest)), false, false)?;

        // ---- RTT clauses (RFC 9002 5.1 - 5.3) ----
        let r = *self.rtt(rx);
        let latest_before = before[rx].latest_rtt();
        let (latest, min, srtt) = (r.latest_rtt().as_micros() as u64, r.min_rtt().as_micros() as u64, r.smoothed_rtt().as_micros() as u64);
        // the estimators of the other paths must not move at all
        for i in (0..self.ids.len()).filter(|&i| i != rx) {
            let o = *self.rtt(i);
            ensure(
                o.latest_rtt() == before[i].latest_rtt() && o.min_rtt() == before[i].min_rtt() && o.smoothed_rtt() == before[i].smoothed_rtt(),
                "c09.rtt_sample_spurious",
                || format!("ACK {lo}..={largest} received on path {rx} changed the RTT estimator of path {i}: {:?} -> {:?}", before[i], o),
            )?;
        }
        match sample {
            Some(s) => {
                self.tally[3] += 1;
                ensure(latest == s && r.latest_rtt().subsec_nanos() % 1_000 == 0, "c09.latest_rtt", || {
                    format!("ACK of pn {largest} received {s} us after it was sent: latest_rtt is {:?}", r.latest_rtt())
                })?;
                if self.pc_possible[rx] && min == s && self.samples[rx].iter().any(|&o| o < s) {
                    // persistent congestion was established: min_rtt restarts (RFC 9002 5.2)
                    self.samples[rx].clear();
                }
                self.pc_possible[rx] = false;
                self.samples[rx].push(s);
            }
            None => {
                ensure(r.latest_rtt() == latest_before, "c09.rtt_sample_spurious", || {
                    format!("ACK {lo}..={largest} on path {rx} generates no RTT sample (largest newly acked: {largest_newly}, ack-eliciting newly acked: {any_eliciting_newly}, largest sent on path {:?}) but latest_rtt changed {:?} -> {:?}", largest_path, latest_before, r.latest_rtt())
                })?;
            }
        }
        self.check_rtt_ranges()?;
        let _ = srtt;
        let _ = min;
        self.after_step()
    }

    fn check_rtt_ranges(&self) -> Result<(), Violation> {
        for path in 0..self.ids.len() {
            self.check_rtt_range_of(path)?;
        }
        Ok(())
    }

    fn check_rtt_range_of(&self, path: usize) -> Result<(), Violation> {
        let r = *self.rtt(path);
        let samples = &self.samples[path];
        if samples.is_empty() {
            ensure(
                r.min_rtt().as_micros() as u64 == INITIAL_RTT_US && r.smoothed_rtt().as_micros() as u64 == INITIAL_RTT_US,
                "c09.srtt_range",
                || format!("no RTT sample yet but min_rtt {:?} / smoothed_rtt {:?} differ from the initial RTT", r.min_rtt(), r.smoothed_rtt()),
            )?;
            return Ok(());
        }
        let lo = *samples.iter().min().unwrap() as u128 * 1_000;
        let hi = *samples.iter().max().unwrap() as u128 * 1_000;
        ensure(r.min_rtt().as_nanos() == lo, "c09.min_rtt", || format!("path {path}: min_rtt {:?} but the samples are {:?} us", r.min_rtt(), samples))?;
        let s = r.smoothed_rtt().as_nanos();
        ensure(s >= lo && s <= hi, "c09.srtt_range", || format!("path {path}: smoothed_rtt {:?} outside the range of the samples {:?} us", r.smoothed_rtt(), samples))?;
        Ok(())
    }

    fn do_timeout(&mut self, early: bool) -> Result<(), Violation> {
        let before = self.deadline();
        if !early {
            let d = before.expect("FireTimer is only enabled with an armed timer");
            if d > self.now as i128 {
                self.now = d as u64;
            }
        }
        let pto_mode = !self.loss_mode;
        let now = ts(self.now);
        let mut publisher = Publisher::no_snapshot();
        let events = {
            // space/application.rs builds the timeout context with the active path
            let mut ctx = Ctx { pm: &mut self.pm, pid: self.ids[0], confirmed: self.cfg.confirmed, events: Vec::new() };
            self.mgr.on_timeout(now, &mut self.rng, PTO_BACKOFF_CAP, &mut ctx, &mut publisher);
            ctx.events
        };
        if early {
            ensure(events.is_empty() && self.deadline() == before, "c09.timeout_noop", || {
                format!("on_timeout at {} us with deadline {:?} us: events {:?}, deadline now {:?}", self.now, before, events, self.deadline())
            })?;
            return self.after_step();
        }
        if pto_mode {
            self.pto_k += 1;
            self.n_pto += 1;
            self.tally[2] += 1;
        }
        self.digest(&events, None, pto_mode, !pto_mode)?;
        self.after_step()
    }

    fn do_discard(&mut self) -> Result<(), Violation> {
        let id = self.pm.active_path_id();
        let mut publisher = Publisher::no_snapshot();
        self.mgr.on_packet_number_space_discarded(self.pm.active_path_mut(), id, &mut publisher);
        for p in self.pkts.iter_mut() {
            if p.st == St::Out {
                p.st = St::Discarded;
            }
        }
        self.discarded = true;
        self.check_bytes_in_flight()
    }
}

impl Rec {
    /// alphabet of c09.recovery_multipath: send(path, ack-eliciting, size), tick, ack(largest in
    /// outstanding, range {largest} | {0..=largest}, arriving on path 0 | 1), fire_timer
    fn ops_multipath(&self) -> Vec<Op> {
        let mut v = Vec::new();
        if self.pkts.len() < self.cfg.max_packets {
            for path in 0..self.ids.len() {
                for &size in self.cfg.sizes_eliciting {
                    v.push(Op::SendOn { path, eliciting: true, size });
                }
            }
        }
        for &t in self.cfg.ticks_us {
            v.push(Op::Tick { us: t });
        }
        if self.deadline().is_some() {
            v.push(Op::FireTimer);
        }
        for p in self.pkts.iter().filter(|p| p.st == St::Out) {
            for len in [Len::One, Len::AllBelow] {
                if len == Len::AllBelow && p.pn == 0 {
                    continue;
                }
                for rx in 0..self.ids.len() {
                    v.push(Op::AckOn { largest: p.pn, len, rx });
                }
            }
        }
        v
    }
}

impl Sys for Rec {
    type Op = Op;

    fn ops(&self) -> Vec<Op> {
        let mut v = Vec::new();
        if self.discarded {
            // the space (and its recovery manager) is dropped with its keys
            return v;
        }
        if self.ids.len() > 1 {
            return self.ops_multipath();
        }
        if self.pkts.len() < self.cfg.max_packets {
            for &s in self.cfg.sizes_eliciting {
                v.push(Op::Send { eliciting: true, size: s });
            }
            for &s in self.cfg.sizes_non_eliciting {
                v.push(Op::Send { eliciting: false, size: s });
            }
        }
        for &t in self.cfg.ticks_us {
            v.push(Op::Tick { us: t });
        }
        let d = self.deadline();
        if d.is_some() {
            v.push(Op::FireTimer);
        }
        // ACK frames: Largest Acknowledged = any sent packet number.  Frames that can change
        // nothing (no unresolved packet in the range and no new largest) are left out; frames whose
        // largest is already resolved (reordered / late ACK frames, ACKs of packets already
        // declared lost) cannot produce an RTT sample, so one ack_delay value suffices for them.
        for p in self.pkts.iter() {
            for len in [Len::One, Len::Two, Len::AllBelow] {
                let lo = match len {
                    Len::One => p.pn,
                    Len::Two if p.pn >= 1 => p.pn - 1,
                    Len::AllBelow if p.pn >= 2 => 0,
                    _ => continue,
                };
                let touches_out = self.pkts.iter().any(|q| q.st == St::Out && q.pn >= lo && q.pn <= p.pn);
                let new_largest = self.largest_acked.map_or(true, |l| p.pn > l);
                if !touches_out && !new_largest {
                    continue;
                }
                let delays = if p.st == St::Out { self.cfg.delays_us } else { &self.cfg.delays_us[..1] };
                for &delay_us in delays {
                    v.push(Op::Ack { largest: p.pn, len, delay_us });
                }
            }
        }
        if self.last_ack.is_some() {
            v.push(Op::DupLastAck);
        }
        // unambiguous only: nothing armed, or the deadline is at least one granule away
        if d.map_or(true, |d| d >= self.now as i128 + 1_000) {
            v.push(Op::EarlyTimeout);
        }
        if self.cfg.space == PacketNumberSpace::Handshake && !self.pkts.is_empty() {
            v.push(Op::DiscardSpace);
        }
        v
    }

    fn step(&mut self, op: &Op) -> Result<(), Violation> {
        self.tally = [0; 4];
        match *op {
            Op::Send { eliciting, size } => self.do_send(0, eliciting, size),
            Op::SendOn { path, eliciting, size } => self.do_send(path, eliciting, size),
            Op::AckOn { largest, len, rx } => {
                let lo = match len {
                    Len::One => largest,
                    Len::Two => largest - 1,
                    Len::AllBelow => 0,
                };
                self.do_ack(largest, lo, 0, rx)
            }
            Op::Tick { us } => {
                self.now += us;
                Ok(())
            }
            Op::FireTimer => self.do_timeout(false),
            Op::EarlyTimeout => self.do_timeout(true),
            Op::Ack { largest, len, delay_us } => {
                let lo = match len {
                    Len::One => largest,
                    Len::Two => largest - 1,
                    Len::AllBelow => 0,
                };
                self.do_ack(largest, lo, delay_us, 0)
            }
            Op::DupLastAck => {
                let (largest, lo, delay_us) = self.last_ack.expect("enabled only after an ACK");
                self.do_ack(largest, lo, delay_us, 0)
            }
            Op::DiscardSpace => self.do_discard(),
        }
    }

    fn key(&self) -> u128 {
        // Debug of the manager shows every field (sent packet map with all per-packet info, both
        // timers, PTO state, ECN counters; `packet::number::Map` hides only its ring layout).
        // Debug of the Path shows rtt estimator, CUBIC state, backoff, MTU and ECN controllers.
        let mut real = format!("{:?}", self.mgr);
        for id in &self.ids {
            real.push_str(&format!("|{:?}", self.pm[*id]));
        }
        for (c, n) in [&TIME_SLACK_LOSSES, &LOSSES, &PTO_EXPIRIES, &RTT_SAMPLES].iter().zip(self.tally) {
            c.fetch_add(n, Ordering::Relaxed);
        }
        key128(&(
            real,
            self.now,
            &self.pkts,
            (self.largest_acked, self.loss_mode),
            &self.samples,
            &self.pc_possible,
            self.last_ack,
            (self.pto_k, self.pto_unit, self.last_eliciting_sent, self.discarded),
        ))
    }

    fn outcome(&self) -> u64 {
        let acked = self.pkts.iter().filter(|p| p.st == St::Acked).count() as u64;
        let lost = self.pkts.iter().filter(|p| p.st == St::Lost).count() as u64;
        acked | lost << 8 | (self.n_pto.min(15) as u64) << 16 | (self.samples.iter().map(|s| s.len()).sum::<usize>().min(15) as u64) << 20 | (self.discarded as u64) << 24 | (self.loss_mode as u64) << 25
    }
}

// ---------------------------------------------------------------------------------------------
// test entry points
// ---------------------------------------------------------------------------------------------

fn families(tier: Tier) -> Vec<(Cfg, usize, f64)> {
    // wall caps are safety nets for a loaded machine, not the expected run time
    vec![(cfg_app(tier), tier.pick(6, 7), tier.pick(90.0, 480.0)), (cfg_hs(tier), tier.pick(6, 7), tier.pick(45.0, 120.0))]
}

fn families_multipath(tier: Tier) -> Vec<(Cfg, usize, f64)> {
    vec![(cfg_mp(tier), tier.pick(6, 7), tier.pick(90.0, 480.0))]
}

fn replay(path: &str, families: &dyn Fn(Tier) -> Vec<(Cfg, usize, f64)>) {
    let text = std::fs::read_to_string(path).expect("read replay file");
    let j = Json::parse(&text).expect("parse replay file");
    let fam = j.get("family").and_then(|f| f.as_str()).unwrap_or("").to_string();
    let hist: Vec<u16> = j.get("history").and_then(|h| h.as_arr()).map(|a| a.iter().filter_map(|x| x.as_i128()).map(|x| x as u16).collect()).unwrap_or_default();
    // the alphabet (hence the op indices) depends on the tier-specific configuration recorded in
    // the replay file
    let thorough = j.get("config").and_then(|c| c.get("tier")).and_then(|t| t.as_str()) == Some("thorough");
    let tier = if thorough { Tier::Thorough } else { Tier::Quick };
    for (cfg, _, _) in families(tier) {
        if cfg.family != fam {
            continue;
        }
        quiet_panics();
        let r = replay_history(&|| Rec::new(cfg.clone()), &hist);
        let _ = std::panic::take_hook();
        match r {
            Ok(trace) => {
                for t in trace {
                    println!("replay:   {}", t);
                }
                println!("replay: no violation");
            }
            Err((trace, v)) => {
                for t in trace {
                    println!("replay:   {}", t);
                }
                println!("replay: VIOLATED {}: {}", v.clause, v.detail);
            }
        }
    }
}

#[test]
fn txmc_c09_recovery() {
    run_test("txmc_c09_recovery", &families);
}

/// ACKs spanning two paths with different RTT estimates (own result file, one report)
#[test]
fn txmc_c09_recovery_multipath() {
    run_test("txmc_c09_recovery_multipath", &families_multipath);
}

fn run_test(name: &str, families: &dyn Fn(Tier) -> Vec<(Cfg, usize, f64)>) {
    if let Ok(p) = std::env::var("VERIF_REPLAY") {
        replay(&p, families);
        return;
    }
    let tier = Tier::from_env();
    let mut out = Output::new();
    let mut violations = 0;
    eprintln!();
    quiet_panics();
    for (cfg, depth, wall) in families(tier) {
        TIME_SLACK_LOSSES.store(0, Ordering::Relaxed);
        PTO_EXPIRIES.store(0, Ordering::Relaxed);
        LOSSES.store(0, Ordering::Relaxed);
        RTT_SAMPLES.store(0, Ordering::Relaxed);
        let cj = cfg.json(depth).set("tier", if tier == Tier::Thorough { "thorough" } else { "quick" });
        let mut rep = explore("txmc", cfg.family, cj, &|| Rec::new(cfg.clone()), &Limits::depth(depth).wall(wall));
        // counters over the explored transitions: evidence that the interesting branches are
        // exercised, not part of any verdict
        rep.extra.push(("x_time_slack_losses".into(), Json::from(TIME_SLACK_LOSSES.load(Ordering::Relaxed))));
        rep.extra.push(("x_losses_seen".into(), Json::from(LOSSES.load(Ordering::Relaxed))));
        rep.extra.push(("x_pto_expiries_seen".into(), Json::from(PTO_EXPIRIES.load(Ordering::Relaxed))));
        rep.extra.push(("x_rtt_samples_seen".into(), Json::from(RTT_SAMPLES.load(Ordering::Relaxed))));
        violations += rep.violations.len();
        out.push(rep);
    }
    let _ = std::panic::take_hook();
    if let Ok(dir) = std::env::var("VERIF_OUT_DIR") {
        out.write_named(&dir, name);
    }
    assert_eq!(violations, 0, "C09 violations found (see the report)");
}

// txmc / stream area: explicit-state search over the REAL crate-private stream components of
// s2n-quic-transport (`StreamImpl`, `SendStream`, `ReceiveStream`, the connection flow
// controllers, `AbstractStreamManager<StreamImpl>`).
//
// This file is `#[path]`-mounted as a child module of `s2n_quic_transport::stream` (hook H1,
// `/verif/engines/txmc/hooks/H1-stream.patch`), so it sees the private `stream::testing` module.
//
//   family streampair.{c01,c02,c03,c12}/<config>   two real StreamImpls joined by a frame bag
//   family advmgr/<role>                            real stream manager fed an adversarial peer
//
// Every `#[test]` writes `<VERIF_OUT_DIR>/<test name>.json`; with `VERIF_REPLAY` set it re-executes
// only the recorded history (if the replay file names one of its families).
#![allow(dead_code, clippy::all)]

#[path = "/verif/engines/mccore/mccore.rs"]
mod mccore;

#[path = "/verif/engines/txmc/stream_pair.rs"]
mod pair;

#[path = "/verif/engines/txmc/stream_advmgr.rs"]
mod advmgr;

use mccore::{Json, Output, Tier};

pub(self) const ENGINE: &str = "txmc";

/// `Waker`s print their data/vtable addresses in `Debug`; those differ between two rebuilds of
/// the same state, so every `0x…` token is blanked before a `Debug` rendering enters a state key.
pub(self) fn scrub(s: &str) -> String {
    let b = s.as_bytes();
    let mut out = String::with_capacity(b.len());
    let mut i = 0;
    while i < b.len() {
        if b[i] == b'0' && i + 1 < b.len() && b[i + 1] == b'x' {
            out.push_str("0x_");
            i += 2;
            while i < b.len() && (b[i] as char).is_ascii_hexdigit() {
                i += 1;
            }
        } else {
            out.push(b[i] as char);
            i += 1;
        }
    }
    out
}

/// The real objects hold `Rc<RefCell<..>>` flow controllers and are therefore `!Send`. mccore
/// builds, steps and drops every state inside one worker thread (states are stored as operation
/// histories and rebuilt by replay), so no `Rc` is ever shared between threads.
pub(self) struct Threadbound<T>(pub T);
unsafe impl<T> Send for Threadbound<T> {}

/// Violations are not handed to the explorer one by one (it keeps the first few dozen it sees, so
/// a frequent known finding would crowd out a rarer clause). `step` records them here instead,
/// marks the state dead, and the driver attaches the `keep` shortest histories of EVERY clause to
/// the report, plus the number of violating transitions per clause (`x_clause_hits`). "Shortest"
/// is taken over the whole set (length, then op list). Note: which of several equally long
/// histories represents a de-duplicated state is decided by the explorer's worker threads, so
/// only the clause, the hit count and (in practice) the single shortest history are stable
/// across runs - known findings should be matched on the clause part of the fingerprint.
pub(self) struct Collector {
    keep: usize,
    inner: std::sync::Mutex<std::collections::BTreeMap<String, (u64, std::collections::BTreeSet<(usize, Vec<String>, String)>)>>,
}

impl Collector {
    pub fn new(keep: usize) -> std::sync::Arc<Collector> {
        std::sync::Arc::new(Collector { keep, inner: std::sync::Mutex::new(Default::default()) })
    }

    pub fn record(&self, v: &mccore::Violation, ops: Vec<String>) {
        let mut g = self.inner.lock().unwrap();
        let entry = g.entry(v.clause.clone()).or_insert_with(|| (0, Default::default()));
        entry.0 += 1;
        entry.1.insert((ops.len(), ops, v.detail.clone()));
        while entry.1.len() > self.keep {
            let last = entry.1.iter().next_back().cloned().unwrap();
            entry.1.remove(&last);
        }
    }

    /// turn what was collected into explorer-style violations (with replayable op indices)
    pub fn attach<S: mccore::Sys>(&self, rep: &mut mccore::Report, config: &Json, init: &dyn Fn() -> S) {
        let g = self.inner.lock().unwrap();
        let mut hits = Json::obj();
        let mut out = Vec::new();
        for (clause, (count, set)) in g.iter() {
            hits.put(clause, *count);
            for (_, ops, detail) in set.iter() {
                // op indices for the replay file: re-run the history on a fresh system
                let mut s = init();
                let mut hist: Vec<u64> = Vec::new();
                for want in ops.iter() {
                    let avail = s.ops();
                    let Some(i) = avail.iter().position(|o| &format!("{:?}", o) == want) else { break };
                    hist.push(i as u64);
                    if mccore::guarded("attach", || s.step(&avail[i])).is_err() {
                        break;
                    }
                }
                let mut v = mccore::Violation::new(clause, detail.clone());
                v.fingerprint = format!("{}|{}|{}|{}", rep.engine, rep.family, clause, ops.join(";"));
                v.replay = Json::obj()
                    .set("engine", rep.engine.as_str())
                    .set("family", rep.family.as_str())
                    .set("config", config.clone())
                    .set("clause", clause.as_str())
                    .set("detail", detail.as_str())
                    .set("history", hist)
                    .set("ops", ops.clone());
                out.push(v);
            }
        }
        out.sort_by_key(|v| v.replay.get("history").and_then(|h| h.as_arr()).map(|a| a.len()).unwrap_or(0));
        rep.violations.extend(out);
        rep.extra.push(("x_clause_hits".into(), hits));
    }
}

pub(self) struct ReplayReq {
    pub family: String,
    pub config: Json,
    pub history: Vec<u16>,
}

pub(self) fn replay_request() -> Option<ReplayReq> {
    let path = std::env::var("VERIF_REPLAY").ok()?;
    if path.is_empty() {
        return None;
    }
    let text = std::fs::read_to_string(&path).unwrap_or_else(|e| panic!("cannot read replay file {}: {}", path, e));
    let j = Json::parse(&text).unwrap_or_else(|e| panic!("cannot parse replay file {}: {}", path, e));
    let family = j.get("family").and_then(|f| f.as_str()).unwrap_or("").to_string();
    let config = j.get("config").cloned().unwrap_or(Json::Null);
    let history = j
        .get("history")
        .and_then(|h| h.as_arr())
        .map(|a| a.iter().map(|x| x.as_i128().unwrap_or(0) as u16).collect())
        .unwrap_or_default();
    Some(ReplayReq { family, config, history })
}

pub(self) fn print_replay(res: Result<Vec<String>, (Vec<String>, mccore::Violation)>) {
    match res {
        Ok(trace) => {
            for (i, op) in trace.iter().enumerate() {
                println!("replay: step {} {}", i, op);
            }
            println!("replay: no violation");
        }
        Err((trace, v)) => {
            for (i, op) in trace.iter().enumerate() {
                println!("replay: step {} {}", i, op);
            }
            println!("replay: VIOLATED {}: {}", v.clause, v.detail);
        }
    }
}

pub(self) fn finish(out: Output, name: &str) {
    if let Ok(dir) = std::env::var("VERIF_OUT_DIR") {
        if !dir.is_empty() {
            out.write_named(&dir, name);
        }
    }
}

// ---------------------------------------------------------------------------------------------
// #[test] entry points (cargo test filter = the function name)
// ---------------------------------------------------------------------------------------------

fn run_pair(focus: pair::Focus, name: &str) {
    if let Some(req) = replay_request() {
        if req.family.starts_with(&format!("streampair.{}/", focus.tag())) {
            print_replay(pair::replay(focus, &req.config, &req.history));
        }
        return;
    }
    mccore::quiet_panics();
    let mut out = Output::new();
    pair::run(focus, Tier::from_env(), &mut out);
    let _ = std::panic::take_hook();
    finish(out, name);
}

/// C01 - bytes read are exactly a prefix of the bytes written; clean EOF only after everything
#[test]
fn verif_streampair_c01() {
    run_pair(pair::Focus::C01, "verif_streampair_c01");
}

/// C02 helper - transmission interest / waker liveness after credit and ack events
#[test]
fn verif_streampair_c02() {
    run_pair(pair::Focus::C02, "verif_streampair_c02");
}

/// C03 - nothing on the wire beyond the largest stream / connection limit received
#[test]
fn verif_streampair_c03() {
    run_pair(pair::Focus::C03, "verif_streampair_c03");
}

/// C12 - what the sender puts on the wire is self-consistent
#[test]
fn verif_streampair_c12() {
    run_pair(pair::Focus::C12, "verif_streampair_c12");
}

/// C04 - adversarial peer against the real stream manager + CREDIT bound
#[test]
fn verif_advmgr_c04() {
    if let Some(req) = replay_request() {
        if req.family.starts_with("advmgr/") {
            print_replay(advmgr::replay(&req.config, &req.history));
        }
        return;
    }
    mccore::quiet_panics();
    let mut out = Output::new();
    advmgr::run(Tier::from_env(), &mut out);
    let _ = std::panic::take_hook();
    finish(out, "verif_advmgr_c04");
}

// txmc family `advmgr` (C04): the REAL `AbstractStreamManager<StreamImpl>` (with its real stream
// controller and connection flow controllers) as the victim of a peer that is honest until it
// sends one rule-breaking frame.
//
// Every peer frame is serialised and then decoded with the crate's own frame decoder before it
// is dispatched to the manager, exactly like `space::handle_cleartext_payload` does (some limits,
// e.g. MAX_STREAMS > 2^60, are enforced by the decoder).
//
// Oracle (reference model = integers per stream, RFC 9000 sentences transcribed per operation):
//   * every adversarial operation makes the manager return a `transport::Error` whose code is in
//     the set the RFC sentence defining the violation allows (or PROTOCOL_VIOLATION, the generic
//     code section 11 permits in its place);
//   * after the error, accepting and reading every stream returns only bytes of the honest
//     PRF prefix (offending bytes are 0xEE filler) - never more than the peer honestly sent;
//   * honest operations never produce a transport error and deliver exactly the PRF bytes;
//   * CREDIT: after every operation the manager is asked to transmit; every MAX_STREAM_DATA(v)
//     has v <= bytes the application consumed on that stream + the configured stream window,
//     MAX_DATA(v) <= sum of consumed bytes + connection window, MAX_STREAMS(v) <= closed streams
//     of that type + configured limit.

use super::mccore::{self, ensure, explore, key128, prf_byte, prf_vec, Json, Limits, Output, Sys, Tier, Violation};
use super::super::testing::*;
use super::super::{manager_api::Manager as _, AbstractStreamManager, StreamImpl};
use super::{scrub, Collector, Threadbound, ENGINE};
use crate::{
    connection::{self, InternalConnectionId, InternalConnectionIdGenerator, Limits as ConnectionLimits},
    contexts::ConnectionApiCallContext,
    transmission,
    wakeup_queue::{WakeupHandle, WakeupQueue},
};
use alloc::sync::Arc;
use bytes::Bytes;
use core::task::{Context, Poll, Waker};
use futures_test::task::new_count_waker;
use s2n_codec::{DecoderBufferMut, EncoderBuffer, EncoderValue};
use s2n_quic_core::{
    endpoint,
    frame::{Frame, FrameMut, MaxStreamData, MaxStreams, ResetStream, StopSending, Stream as StreamFrame, StreamDataBlocked},
    recovery::DEFAULT_INITIAL_RTT,
    stream::{ops, StreamId, StreamType},
    time::clock::testing as time,
    transport::{
        self,
        parameters::{InitialFlowControlLimits, InitialStreamLimits},
    },
    varint::VarInt,
};
use std::collections::BTreeMap;

type Mgr = AbstractStreamManager<StreamImpl>;

/// receive windows the victim advertises per stream; the three transport parameters are pairwise
/// different so that a mix-up of the perspectives (bidi_local vs bidi_remote vs uni) is visible
const WIN_BIDI_REMOTE: u64 = 8; // peer-initiated bidirectional streams
const WIN_UNI: u64 = 7; // peer-initiated unidirectional streams
const WIN_BIDI_LOCAL: u64 = 10; // receiving half of the victim's own bidirectional streams
/// window of a peer-initiated stream of the type
fn win(ty: Ty) -> u64 {
    match ty {
        Ty::Bidi => WIN_BIDI_REMOTE,
        Ty::Uni => WIN_UNI,
    }
}
/// connection receive window the victim advertises
const CONN_WIN: u64 = 12;
/// streams of each type the peer may open
const MAX_PEER_STREAMS: u64 = 2;
const JUNK: u8 = 0xEE;
const LOCAL_RX_KEY: u64 = 0x10CA2;

#[derive(Clone, Copy, Debug, PartialEq, Eq)]
pub struct Cfg {
    pub name: &'static str,
    pub server: bool,
}

pub const CONFIGS: &[Cfg] = &[Cfg { name: "victim-server", server: true }, Cfg { name: "victim-client", server: false }];

impl Cfg {
    fn json(&self) -> Json {
        Json::obj()
            .set("name", self.name)
            .set("stream_window_bidi_remote", WIN_BIDI_REMOTE)
            .set("stream_window_uni", WIN_UNI)
            .set("stream_window_bidi_local", WIN_BIDI_LOCAL)
            .set("connection_window", CONN_WIN)
            .set("max_peer_streams", MAX_PEER_STREAMS)
    }
    fn from_json(j: &Json) -> Option<Cfg> {
        let name = j.get("name")?.as_str()?;
        CONFIGS.iter().copied().find(|c| c.name == name)
    }
    fn local(&self) -> endpoint::Type {
        if self.server {
            endpoint::Type::Server
        } else {
            endpoint::Type::Client
        }
    }
}

#[derive(Clone, Copy, Debug, PartialEq, Eq, PartialOrd, Ord, Hash)]
pub enum Ty {
    Bidi,
    Uni,
}

impl Ty {
    fn st(self) -> StreamType {
        match self {
            Ty::Bidi => StreamType::Bidirectional,
            Ty::Uni => StreamType::Unidirectional,
        }
    }
    fn of(t: StreamType) -> Ty {
        match t {
            StreamType::Bidirectional => Ty::Bidi,
            StreamType::Unidirectional => Ty::Uni,
        }
    }
    fn ix(self) -> usize {
        self as usize
    }
}

#[derive(Clone, Copy, Debug, PartialEq, Eq)]
pub enum Which {
    AtLimit,
    LimitPlus1,
    Max, // 2^60 - 1
}

#[derive(Clone, Copy, Debug, PartialEq, Eq)]
pub enum Kind {
    Stream,
    ResetStream,
    MaxStreamData,
    StopSending,
    StreamDataBlocked,
}

#[derive(Clone, Debug, PartialEq, Eq)]
pub enum Op {
    // ---- honest
    /// peer sends the next 3 in-order bytes on its stream (type, index); opens it if necessary
    PeerData(Ty, u8),
    /// peer finishes its stream with an empty STREAM+FIN at the current offset
    PeerFin(Ty, u8),
    AppAccept,
    AppRead(Ty, u8),
    /// application opens the first local stream of the type and writes 3 bytes
    AppOpenLocal(Ty),
    /// peer sends the next 3 in-order bytes on the victim's own bidirectional stream #0
    PeerDataLocal,
    /// application reads from its own bidirectional stream #0
    AppReadLocal,
    // ---- adversarial (one RFC 9000 rule broken each)
    /// 4.1 / 19.10: stream data ending 1 byte above the advertised stream limit
    OverStreamLimit(Ty),
    /// 4.1 / 19.10: data ending 1 byte above the limit advertised for the victim's own bidirectional stream
    OverLocalStreamLimit,
    /// 4.1 / 19.9: every stream inside its own limit, the sum 1 byte above the connection limit
    OverConnLimit,
    /// 4.6 / 19.11: STREAM for a peer-initiated stream index >= the advertised MAX_STREAMS
    StreamIdOverLimit(Ty, Which),
    /// 4.5: a second FIN whose final size differs by +1 / -1
    SecondFin(Ty, i8),
    /// 4.5: data at the known final size
    DataBeyondFinal(Ty),
    /// 4.5: data that starts below the known final size and extends one byte beyond it
    DataStraddlingFinal(Ty),
    /// 4.5: RESET_STREAM whose final size differs from the FIN's by +1 / -1
    ResetFinalMismatch(Ty, i8),
    /// 4.5: RESET_STREAM whose final size is below data already sent
    ResetBelowReceived(Ty),
    /// 4.5: a FIN (empty STREAM frame) whose final size is below data already sent - whether or not
    /// the application has consumed that data meanwhile
    FinBelowReceived(Ty),
    /// 4.5 + 4.1: RESET_STREAM whose final size is above the stream limit
    ResetOverLimit(Ty),
    /// 19.8 / 19.4 / 19.13: STREAM, RESET_STREAM, STREAM_DATA_BLOCKED for the victim's send-only stream
    OnLocalUni(Kind),
    /// 19.10 / 19.5: MAX_STREAM_DATA, STOP_SENDING for the peer's own unidirectional (receive-only for the victim) stream
    OnPeerUni(Kind),
    /// 19.8 / 19.10 / 19.5 / 3.2: a stream frame for a victim-initiated stream that was never opened
    OnUnopenedLocal(Ty, Kind),
    /// 19.11: MAX_STREAMS above 2^60
    MaxStreamsTooLarge(Ty),
}

#[derive(Clone, Debug, Default, Hash, PartialEq, Eq)]
struct PeerStream {
    /// honest bytes the peer sent, always the contiguous prefix [0..end)
    end: u64,
    fin: Option<u64>,
    /// bytes the application read
    read: u64,
    accepted: bool,
    eof: bool,
    /// largest MAX_STREAM_DATA the victim advertised for it (starts with the transport parameter)
    adv_limit: u64,
}

#[derive(Clone, Debug, Hash)]
struct Model {
    peer: BTreeMap<(Ty, u8), PeerStream>,
    /// streams of each type the peer has opened so far (highest referenced index + 1)
    opened: [u64; 2],
    next_accept: [u64; 2],
    adv_conn: u64,
    adv_max_streams: [u64; 2],
    local_opened: [bool; 2],
    /// what the peer sent / the application read on the victim's own bidirectional stream #0
    local_rx: PeerStream,
    /// the connection is over (a transport error was raised, or an offending frame was accepted)
    dead: bool,
    /// an oracle clause failed in this state (recorded in the collector)
    violated: bool,
    error_code: Option<u64>,
}

impl Model {
    fn new() -> Model {
        Model {
            peer: BTreeMap::new(),
            opened: [0; 2],
            next_accept: [0; 2],
            adv_conn: CONN_WIN,
            adv_max_streams: [MAX_PEER_STREAMS; 2],
            local_opened: [false; 2],
            local_rx: PeerStream { adv_limit: WIN_BIDI_LOCAL, ..Default::default() },
            dead: false,
            violated: false,
            error_code: None,
        }
    }
    fn stream(&mut self, ty: Ty, idx: u8) -> &mut PeerStream {
        self.peer.entry((ty, idx)).or_insert_with(|| PeerStream { adv_limit: win(ty), ..Default::default() })
    }
    fn get(&self, ty: Ty, idx: u8) -> PeerStream {
        self.peer.get(&(ty, idx)).cloned().unwrap_or(PeerStream { adv_limit: win(ty), ..Default::default() })
    }
    fn conn_sum(&self) -> u64 {
        self.peer.values().map(|s| s.end).sum::<u64>() + self.local_rx.end
    }
    fn consumed_sum(&self) -> u64 {
        self.peer.values().map(|s| s.read).sum::<u64>() + self.local_rx.read
    }
    /// peer-initiated streams of the type that are closed from the victim's point of view.
    /// Unidirectional: all data up to the final size was read. Bidirectional streams also need the
    /// victim's sending half to be finished and acknowledged, which never happens in this alphabet.
    fn closed(&self, ty: Ty) -> u64 {
        match ty {
            Ty::Bidi => 0,
            Ty::Uni => self.peer.iter().filter(|((t, _), s)| *t == Ty::Uni && s.fin.map_or(false, |f| s.read == f)).count() as u64,
        }
    }
    fn note_open(&mut self, ty: Ty, idx: u64) {
        if idx + 1 > self.opened[ty.ix()] {
            self.opened[ty.ix()] = idx + 1;
        }
    }
}

pub struct Adv {
    cfg: Cfg,
    mgr: Mgr,
    frames: OutgoingFrameBuffer,
    wakeup_queue: WakeupQueue<InternalConnectionId>,
    wakeup_handle: Arc<WakeupHandle<InternalConnectionId>>,
    waker: Waker,
    decoder_rejected: bool,
    collector: Option<Arc<Collector>>,
    trace: Vec<String>,
    m: Model,
    /// Debug rendering of the manager and of every stream it holds (the container's own Debug
    /// hides the streams), refreshed after every step
    render: String,
}

fn local_limits() -> InitialFlowControlLimits {
    InitialFlowControlLimits {
        stream_limits: InitialStreamLimits {
            max_data_bidi_local: VarInt::new(WIN_BIDI_LOCAL).unwrap(),
            max_data_bidi_remote: VarInt::new(WIN_BIDI_REMOTE).unwrap(),
            max_data_uni: VarInt::new(WIN_UNI).unwrap(),
        },
        max_data: VarInt::new(CONN_WIN).unwrap(),
        max_open_remote_bidirectional_streams: VarInt::new(MAX_PEER_STREAMS).unwrap(),
        max_open_remote_unidirectional_streams: VarInt::new(MAX_PEER_STREAMS).unwrap(),
    }
}

fn peer_limits() -> InitialFlowControlLimits {
    InitialFlowControlLimits {
        stream_limits: InitialStreamLimits {
            max_data_bidi_local: VarInt::from_u32(100),
            max_data_bidi_remote: VarInt::from_u32(100),
            max_data_uni: VarInt::from_u32(100),
        },
        max_data: VarInt::from_u32(1000),
        max_open_remote_bidirectional_streams: VarInt::from_u32(4),
        max_open_remote_unidirectional_streams: VarInt::from_u32(4),
    }
}

pub fn init(cfg: Cfg, collector: Option<Arc<Collector>>) -> Threadbound<Adv> {
    let limits = ConnectionLimits::default();
    let mgr = Mgr::new(&limits, cfg.local(), local_limits(), peer_limits(), DEFAULT_INITIAL_RTT);
    let wakeup_queue = WakeupQueue::new();
    let id = InternalConnectionIdGenerator::new().generate_id();
    let wakeup_handle = Arc::new(wakeup_queue.create_wakeup_handle(id));
    let (waker, _count) = new_count_waker();
    let mut s = Adv { cfg, mgr, frames: OutgoingFrameBuffer::new(), wakeup_queue, wakeup_handle, waker, decoder_rejected: false, collector, trace: Vec::new(), m: Model::new(), render: String::new() };
    s.refresh_render();
    Threadbound(s)
}

fn enc<F: EncoderValue>(f: &F) -> Vec<u8> {
    let mut buf = vec![0u8; f.encoding_size()];
    let mut e = EncoderBuffer::new(&mut buf[..]);
    f.encode(&mut e);
    buf
}

fn key_of(ty: Ty, idx: u64) -> u64 {
    0xB0B0 + (ty.ix() as u64) * 64 + idx
}

impl Adv {
    fn peer_id(&self, ty: Ty, idx: u64) -> StreamId {
        StreamId::nth(self.cfg.local().peer_type(), ty.st(), idx).expect("valid stream index")
    }
    fn local_id(&self, ty: Ty, idx: u64) -> StreamId {
        StreamId::nth(self.cfg.local(), ty.st(), idx).expect("valid stream index")
    }

    /// serialise, decode with the crate's decoder, dispatch like `handle_cleartext_payload`
    fn feed(&mut self, mut bytes: Vec<u8>) -> Result<(), transport::Error> {
        let buffer = DecoderBufferMut::new(&mut bytes[..]);
        self.decoder_rejected = false;
        let (frame, _rest) = match buffer.decode::<FrameMut>() {
            Ok(x) => x,
            Err(e) => {
                // the packet is rejected before any frame handler runs; the connection layer
                // closes the connection with this error (`handle_cleartext_payload`)
                self.decoder_rejected = true;
                return Err(transport::Error::from(e));
            }
        };
        match frame {
            Frame::Stream(f) => self.mgr.on_data(&f.into()),
            Frame::ResetStream(f) => self.mgr.on_reset_stream(&f),
            Frame::MaxStreamData(f) => self.mgr.on_max_stream_data(&f),
            Frame::StopSending(f) => self.mgr.on_stop_sending(&f),
            Frame::StreamDataBlocked(f) => self.mgr.on_stream_data_blocked(&f),
            Frame::MaxStreams(f) => self.mgr.on_max_streams(&f),
            Frame::MaxData(f) => self.mgr.on_max_data(f),
            other => panic!("harness produced an unexpected frame {:?}", other),
        }
    }

    fn stream_frame(&self, id: StreamId, off: u64, data: &[u8], fin: bool) -> Vec<u8> {
        enc(&StreamFrame { stream_id: id.into(), offset: VarInt::new(off).unwrap(), is_last_frame: false, is_fin: fin, data })
    }
    fn reset_frame(&self, id: StreamId, final_size: u64) -> Vec<u8> {
        enc(&ResetStream { stream_id: id.into(), application_error_code: VarInt::from_u8(3), final_size: VarInt::new(final_size).unwrap() })
    }
    fn kind_frame(&self, id: StreamId, kind: Kind) -> Vec<u8> {
        match kind {
            Kind::Stream => self.stream_frame(id, 0, &[JUNK], false),
            Kind::ResetStream => self.reset_frame(id, 0),
            Kind::MaxStreamData => enc(&MaxStreamData { stream_id: id.into(), maximum_stream_data: VarInt::from_u32(50) }),
            Kind::StopSending => enc(&StopSending { stream_id: id.into(), application_error_code: VarInt::from_u8(3) }),
            Kind::StreamDataBlocked => enc(&StreamDataBlocked { stream_id: id.into(), stream_data_limit: VarInt::from_u8(0) }),
        }
    }

    fn honest(&mut self, what: &str, bytes: Vec<u8>) -> Result<(), Violation> {
        let res = self.feed(bytes);
        ensure(res.is_ok(), "adv.honest_frame_rejected", || format!("{} -> {:?}", what, res))
    }

    /// the offending frame must be answered with an error whose code the RFC allows
    fn offend(&mut self, what: &str, cite: &str, allowed: &[transport::Error], must_error: bool, bytes: Vec<u8>) -> Result<(), Violation> {
        let res = self.feed(bytes);
        match res {
            Err(e) => {
                let code = e.code.as_u64();
                let ok = allowed.iter().any(|a| a.code.as_u64() == code) || code == transport::Error::PROTOCOL_VIOLATION.code.as_u64();
                ensure(ok, "adv.wrong_error_code", || {
                    format!("{} ({}): manager answered {:?}; allowed {:?} or PROTOCOL_VIOLATION", what, cite, e, allowed.iter().map(|a| a.code.as_u64()).collect::<Vec<_>>())
                })?;
                self.m.error_code = Some(code);
                // an error raised by the manager itself must have failed every stream
                ensure(self.decoder_rejected || self.mgr.close_reason().is_some(), "adv.not_closed_after_error", || format!("{}: error {:?} returned but the manager is still open", what, e))?;
            }
            Ok(()) => {
                // one clause per kind of violation, so that a known finding names exactly one
                let kind: String = what.chars().take_while(|c| c.is_ascii_alphanumeric()).collect();
                let detail: String = what.chars().filter(|c| c.is_ascii_alphanumeric() || *c == '-').collect();
                let clause = if kind == "OnLocalUni" || kind == "OnPeerUni" { format!("adv.accepted.{}", detail) } else { format!("adv.accepted.{}", kind) };
                ensure(!must_error, &clause, || format!("{} ({}): the manager accepted the frame (returned Ok)", what, cite))?;
            }
        }
        self.m.dead = true;
        // nothing offending may reach the application
        self.drain_application(what)
    }

    /// accept everything that can be accepted, read everything that can be read
    fn drain_application(&mut self, what: &str) -> Result<(), Violation> {
        for _ in 0..8 {
            match self.accept()? {
                Some(_) => {}
                None => break,
            }
        }
        if self.m.local_opened[Ty::Bidi.ix()] {
            for _ in 0..4 {
                if !self.read_local(what)? {
                    break;
                }
            }
        }
        let keys: Vec<(Ty, u8)> = self.m.peer.iter().filter(|(_, s)| s.accepted).map(|(k, _)| *k).collect();
        for (ty, idx) in keys {
            for _ in 0..4 {
                if !self.read(ty, idx, what)? {
                    break;
                }
            }
        }
        Ok(())
    }

    /// returns the (type, index) of the accepted stream, None when nothing is pending / closed
    fn accept(&mut self) -> Result<Option<(Ty, u8)>, Violation> {
        let cx = Context::from_waker(&self.waker);
        let res = self.mgr.poll_accept(None, &cx);
        // expected: bidirectional streams first, each type in index order
        let expected = if self.m.next_accept[0] < self.m.opened[0] {
            Some((Ty::Bidi, self.m.next_accept[0] as u8))
        } else if self.m.next_accept[1] < self.m.opened[1] {
            Some((Ty::Uni, self.m.next_accept[1] as u8))
        } else {
            None
        };
        match res {
            Poll::Ready(Ok(Some(id))) => {
                let exp = expected.map(|(t, i)| self.peer_id(t, i as u64));
                ensure(exp == Some(id), "adv.accept_unexpected_stream", || format!("accept returned {:?}, the peer opened {:?} streams, expected {:?}", id, self.m.opened, exp))?;
                let (ty, idx) = expected.unwrap();
                self.m.next_accept[ty.ix()] += 1;
                self.m.stream(ty, idx).accepted = true;
                Ok(Some((ty, idx)))
            }
            Poll::Ready(Ok(None)) | Poll::Ready(Err(_)) => {
                ensure(self.mgr.close_reason().is_some(), "adv.accept_failed_while_open", || "accept finished although the manager is open".to_string())?;
                Ok(None)
            }
            Poll::Pending => {
                ensure(expected.is_none(), "adv.accept_missed_stream", || format!("accept is pending although the peer opened {:?} and {:?} were accepted", self.m.opened, self.m.next_accept))?;
                Ok(None)
            }
        }
    }

    /// one read on an accepted peer stream; returns true when bytes were returned
    fn read(&mut self, ty: Ty, idx: u8, what: &str) -> Result<bool, Violation> {
        let id = self.peer_id(ty, idx as u64);
        let mut chunks = [Bytes::new()];
        let mut req = ops::Request::default();
        req.receive(&mut chunks);
        let cx = Context::from_waker(&self.waker);
        let handle = self.wakeup_handle.clone();
        let mut api = ConnectionApiCallContext::from_wakeup_handle(&handle);
        let res = self.mgr.poll_request(id, &mut api, &mut req, Some(&cx));
        drop(req);
        let dead = self.m.dead;
        let st = self.m.stream(ty, idx);
        match res {
            Ok(resp) => {
                let rx = resp.rx.unwrap_or_default();
                let data = if rx.chunks.consumed == 1 { core::mem::take(&mut chunks[0]) } else { Bytes::new() };
                for (i, b) in data.iter().enumerate() {
                    let o = st.read + i as u64;
                    ensure(o < st.end && *b == prf_byte(key_of(ty, idx as u64), o), "adv.offending_data_delivered", || {
                        format!(
                            "after `{}`: read on {:?}#{} returned byte {:#04x} for offset {}; the peer honestly sent [0..{}) (expected {:#04x})",
                            what, ty, idx, b, o, st.end, prf_byte(key_of(ty, idx as u64), o)
                        )
                    })?;
                }
                if !dead {
                    ensure(st.read == st.end || !data.is_empty(), "adv.honest_data_withheld", || format!("read on {:?}#{} returned nothing, honest bytes [{}..{}) pending", ty, idx, st.read, st.end))?;
                }
                st.read += data.len() as u64;
                if rx.status.is_finished() {
                    ensure(st.fin == Some(st.end) && st.read == st.end, "adv.premature_eof", || format!("end of stream on {:?}#{} after {} bytes; honest FIN {:?}, sent {}", ty, idx, st.read, st.fin, st.end))?;
                    st.eof = true;
                }
                Ok(!data.is_empty())
            }
            Err(e) => {
                ensure(dead, "adv.honest_read_failed", || format!("read on {:?}#{} -> {:?} while the peer was honest", ty, idx, e))?;
                Ok(false)
            }
        }
    }

    /// one read on the victim's own bidirectional stream #0; returns true when bytes were returned
    fn read_local(&mut self, what: &str) -> Result<bool, Violation> {
        let id = self.local_id(Ty::Bidi, 0);
        let mut chunks = [Bytes::new()];
        let mut req = ops::Request::default();
        req.receive(&mut chunks);
        let cx = Context::from_waker(&self.waker);
        let handle = self.wakeup_handle.clone();
        let mut api = ConnectionApiCallContext::from_wakeup_handle(&handle);
        let res = self.mgr.poll_request(id, &mut api, &mut req, Some(&cx));
        drop(req);
        let dead = self.m.dead;
        let st = &mut self.m.local_rx;
        match res {
            Ok(resp) => {
                let rx = resp.rx.unwrap_or_default();
                let data = if rx.chunks.consumed == 1 { core::mem::take(&mut chunks[0]) } else { Bytes::new() };
                for (i, b) in data.iter().enumerate() {
                    let o = st.read + i as u64;
                    ensure(o < st.end && *b == prf_byte(LOCAL_RX_KEY, o), "adv.offending_data_delivered", || {
                        format!("after `{}`: read on the local bidirectional stream returned byte {:#04x} for offset {}; the peer honestly sent [0..{})", what, b, o, st.end)
                    })?;
                }
                if !dead {
                    ensure(st.read == st.end || !data.is_empty(), "adv.honest_data_withheld", || format!("read on the local bidirectional stream returned nothing, honest bytes [{}..{}) pending", st.read, st.end))?;
                    ensure(!rx.status.is_finished(), "adv.premature_eof", || "end of stream on the local bidirectional stream although the peer never finished it".to_string())?;
                }
                st.read += data.len() as u64;
                Ok(!data.is_empty())
            }
            Err(e) => {
                ensure(dead, "adv.honest_read_failed", || format!("read on the local bidirectional stream -> {:?} while the peer was honest", e))?;
                Ok(false)
            }
        }
    }

    /// ask the manager to transmit and check the CREDIT bound on everything it advertises
    fn transmit_and_check_credit(&mut self) -> Result<(), Violation> {
        {
            let mut ctx = MockWriteContext::new(time::now(), &mut self.frames, transmission::Constraint::None, transmission::Mode::Normal, self.cfg.local());
            let _ = self.mgr.on_transmit(&mut ctx);
        }
        self.frames.flush();
        let peer_type = self.cfg.local().peer_type();
        while let Some(mut f) = self.frames.pop_front() {
            match f.as_frame() {
                Frame::MaxStreamData(msd) => {
                    let id = StreamId::from_varint(msd.stream_id);
                    let v = msd.maximum_stream_data.as_u64();
                    let ty = Ty::of(id.stream_type());
                    let (consumed, window) = if id.initiator() == peer_type {
                        let idx = (id.as_varint().as_u64() >> 2) as u8;
                        let st = self.m.stream(ty, idx);
                        st.adv_limit = st.adv_limit.max(v);
                        (st.read, win(ty))
                    } else {
                        let st = &mut self.m.local_rx;
                        st.adv_limit = st.adv_limit.max(v);
                        (st.read, WIN_BIDI_LOCAL)
                    };
                    ensure(v <= consumed + window, "credit.max_stream_data", || {
                        format!("MAX_STREAM_DATA({:?}, {}) but the application consumed {} bytes and the window configured for this kind of stream is {}", id, v, consumed, window)
                    })?;
                }
                Frame::MaxData(md) => {
                    let v = md.maximum_data.as_u64();
                    let consumed = self.m.consumed_sum();
                    ensure(v <= consumed + CONN_WIN, "credit.max_data", || format!("MAX_DATA({}) but the application consumed {} bytes in total and the connection window is {}", v, consumed, CONN_WIN))?;
                    self.m.adv_conn = self.m.adv_conn.max(v);
                }
                Frame::MaxStreams(ms) => {
                    let ty = Ty::of(ms.stream_type);
                    let v = ms.maximum_streams.as_u64();
                    let closed = self.m.closed(ty);
                    ensure(v <= closed + MAX_PEER_STREAMS, "credit.max_streams", || format!("MAX_STREAMS({:?}, {}) but {} peer streams of that type are closed and the limit is {}", ty, v, closed, MAX_PEER_STREAMS))?;
                    self.m.adv_max_streams[ty.ix()] = self.m.adv_max_streams[ty.ix()].max(v);
                }
                _ => {}
            }
        }
        Ok(())
    }

    fn refresh_render(&mut self) {
        let mut r = format!("{:?}", self.mgr);
        let ids = self.mgr.active_streams();
        for id in ids {
            let s = self.mgr.with_asserted_stream(id, |s| format!("{:?}", s));
            r.push('|');
            r.push_str(&s);
        }
        r.push_str(&format!(
            "|tx{:?}|rtx{:?}|cf{:?}|dn{:?}",
            self.mgr.streams_waiting_for_transmission(),
            self.mgr.streams_waiting_for_retransmission(),
            self.mgr.streams_waiting_for_connection_flow_control_credits(),
            self.mgr.streams_waiting_for_delivery_notifications()
        ));
        self.render = scrub(&r);
    }

    /// plan of the OverConnLimit operation: honest fills (stream, len) and the offending frame
    fn conn_attack_plan(&self) -> Option<(Vec<(Ty, u8, u64)>, (Ty, u8, u64))> {
        let mut fills = Vec::new();
        let mut room_conn = self.m.adv_conn.checked_sub(self.m.conn_sum())?;
        for ty in [Ty::Bidi, Ty::Uni] {
            for idx in 0..(self.m.adv_max_streams[ty.ix()].min(2) as u8) {
                let st = self.m.get(ty, idx);
                if st.fin.is_some() {
                    continue;
                }
                let room = st.adv_limit.saturating_sub(st.end);
                if room > room_conn {
                    return Some((fills, (ty, idx, room_conn + 1)));
                }
                if room > 0 {
                    fills.push((ty, idx, room));
                    room_conn -= room;
                }
            }
        }
        None
    }
}

const FLOW: transport::Error = transport::Error::FLOW_CONTROL_ERROR;
const LIMIT: transport::Error = transport::Error::STREAM_LIMIT_ERROR;
const FINAL: transport::Error = transport::Error::FINAL_SIZE_ERROR;
const STATE: transport::Error = transport::Error::STREAM_STATE_ERROR;
const ENCODING: transport::Error = transport::Error::FRAME_ENCODING_ERROR;

impl Sys for Threadbound<Adv> {
    type Op = Op;

    fn ops(&self) -> Vec<Op> {
        let s = &self.0;
        let m = &s.m;
        let mut v = Vec::new();
        if m.dead {
            return v;
        }
        let conn_room = m.adv_conn.saturating_sub(m.conn_sum());
        // ---- honest
        for ty in [Ty::Bidi, Ty::Uni] {
            for idx in 0..2u8 {
                if ty == Ty::Uni && idx == 1 {
                    continue; // bidi#0, bidi#1, uni#0 are enough honest streams
                }
                let st = m.get(ty, idx);
                if (idx as u64) < m.adv_max_streams[ty.ix()] && st.fin.is_none() && st.end + 3 <= st.adv_limit && conn_room >= 3 {
                    v.push(Op::PeerData(ty, idx));
                }
            }
        }
        for ty in [Ty::Bidi, Ty::Uni] {
            let st = m.get(ty, 0);
            if st.fin.is_none() {
                v.push(Op::PeerFin(ty, 0));
            }
        }
        if m.next_accept[0] < m.opened[0] || m.next_accept[1] < m.opened[1] {
            v.push(Op::AppAccept);
        }
        for ((ty, idx), st) in m.peer.iter() {
            if st.accepted && !st.eof {
                v.push(Op::AppRead(*ty, *idx));
            }
        }
        for ty in [Ty::Bidi, Ty::Uni] {
            if !m.local_opened[ty.ix()] {
                v.push(Op::AppOpenLocal(ty));
            }
        }
        if m.local_opened[Ty::Bidi.ix()] {
            if m.local_rx.end + 3 <= m.local_rx.adv_limit && conn_room >= 3 {
                v.push(Op::PeerDataLocal);
            }
            if m.local_rx.read < m.local_rx.end {
                v.push(Op::AppReadLocal);
            }
        }
        // ---- adversarial
        for ty in [Ty::Bidi, Ty::Uni] {
            if m.get(ty, 0).fin.is_none() {
                v.push(Op::OverStreamLimit(ty));
            }
        }
        if m.local_opened[Ty::Bidi.ix()] {
            v.push(Op::OverLocalStreamLimit);
        }
        if s.conn_attack_plan().is_some() {
            v.push(Op::OverConnLimit);
        }
        for ty in [Ty::Bidi, Ty::Uni] {
            for w in [Which::AtLimit, Which::LimitPlus1, Which::Max] {
                v.push(Op::StreamIdOverLimit(ty, w));
            }
        }
        for ty in [Ty::Bidi, Ty::Uni] {
            let st = m.get(ty, 0);
            if let Some(f) = st.fin {
                v.push(Op::SecondFin(ty, 1));
                if f >= 1 {
                    v.push(Op::SecondFin(ty, -1));
                }
                v.push(Op::DataBeyondFinal(ty));
                if f >= 1 {
                    v.push(Op::DataStraddlingFinal(ty));
                }
                v.push(Op::ResetFinalMismatch(ty, 1));
                if f >= 1 {
                    v.push(Op::ResetFinalMismatch(ty, -1));
                }
            } else {
                if st.end >= 1 {
                    v.push(Op::ResetBelowReceived(ty));
                    v.push(Op::FinBelowReceived(ty));
                }
                v.push(Op::ResetOverLimit(ty));
            }
        }
        if m.local_opened[Ty::Uni.ix()] {
            v.push(Op::OnLocalUni(Kind::Stream));
            v.push(Op::OnLocalUni(Kind::ResetStream));
            v.push(Op::OnLocalUni(Kind::StreamDataBlocked));
        }
        v.push(Op::OnPeerUni(Kind::MaxStreamData));
        v.push(Op::OnPeerUni(Kind::StopSending));
        for ty in [Ty::Bidi, Ty::Uni] {
            for k in [Kind::Stream, Kind::ResetStream, Kind::MaxStreamData, Kind::StopSending] {
                v.push(Op::OnUnopenedLocal(ty, k));
            }
        }
        for ty in [Ty::Bidi, Ty::Uni] {
            v.push(Op::MaxStreamsTooLarge(ty));
        }
        v
    }

    fn step(&mut self, op: &Op) -> Result<(), Violation> {
        let s = &mut self.0;
        s.trace.push(format!("{:?}", op));
        match s.step_inner(op) {
            Ok(()) => Ok(()),
            Err(v) => match &s.collector {
                Some(c) => {
                    c.record(&v, s.trace.clone());
                    s.m.dead = true;
                    s.m.violated = true;
                    Ok(())
                }
                None => Err(v),
            },
        }
    }

    fn key(&self) -> u128 {
        if self.0.m.violated {
            return key128("violated");
        }
        key128(&(&self.0.render, &self.0.m))
    }

    fn outcome(&self) -> u64 {
        let m = &self.0.m;
        match m.error_code {
            _ if m.violated => 998,
            Some(c) => 1000 + c,
            None if m.dead => 999,
            None => m.consumed_sum().min(15) | ((m.opened[0] + m.opened[1]) << 4),
        }
    }
}

impl Adv {
    fn step_inner(&mut self, op: &Op) -> Result<(), Violation> {
        let s = self;
        let what = format!("{:?}", op);
        match *op {
            Op::PeerData(ty, idx) => {
                let st = s.m.get(ty, idx);
                let id = s.peer_id(ty, idx as u64);
                let data = prf_vec(key_of(ty, idx as u64), st.end, 3);
                let bytes = s.stream_frame(id, st.end, &data, false);
                s.honest(&what, bytes)?;
                s.m.stream(ty, idx).end += 3;
                s.m.note_open(ty, idx as u64);
            }
            Op::PeerFin(ty, idx) => {
                let st = s.m.get(ty, idx);
                let id = s.peer_id(ty, idx as u64);
                let bytes = s.stream_frame(id, st.end, &[], true);
                s.honest(&what, bytes)?;
                s.m.stream(ty, idx).fin = Some(st.end);
                s.m.note_open(ty, idx as u64);
            }
            Op::AppAccept => {
                let got = s.accept()?;
                ensure(got.is_some(), "adv.accept_missed_stream", || "accept returned nothing although a peer stream is pending".to_string())?;
            }
            Op::AppRead(ty, idx) => {
                s.read(ty, idx, &what)?;
            }
            Op::AppOpenLocal(ty) => {
                let cx = Context::from_waker(&s.waker);
                let handle = s.wakeup_handle.clone();
                let mut api = ConnectionApiCallContext::from_wakeup_handle(&handle);
                let mut token = connection::OpenToken::new();
                let res = s.mgr.poll_open_local_stream(ty.st(), &mut token, &mut api, &cx);
                let expected = s.local_id(ty, 0);
                match res {
                    Poll::Ready(Ok(id)) if id == expected => {}
                    other => return mccore::violation("adv.open_local_failed", format!("open {:?} -> {:?}, expected {:?}", ty, other, expected)),
                }
                let mut chunk = [Bytes::from(prf_vec(0x10CA1, 0, 3))];
                let mut req = ops::Request::default();
                req.send(&mut chunk);
                let res = s.mgr.poll_request(expected, &mut api, &mut req, Some(&cx));
                ensure(res.is_ok(), "adv.local_write_failed", || format!("write on {:?} -> {:?}", expected, res))?;
                s.m.local_opened[ty.ix()] = true;
            }
            Op::PeerDataLocal => {
                let id = s.local_id(Ty::Bidi, 0);
                let end = s.m.local_rx.end;
                let data = prf_vec(LOCAL_RX_KEY, end, 3);
                let bytes = s.stream_frame(id, end, &data, false);
                s.honest(&what, bytes)?;
                s.m.local_rx.end += 3;
            }
            Op::AppReadLocal => {
                s.read_local(&what)?;
            }
            Op::OverLocalStreamLimit => {
                let id = s.local_id(Ty::Bidi, 0);
                let end = s.m.local_rx.adv_limit + 1;
                let bytes = s.stream_frame(id, end - 3, &[JUNK; 3], false);
                s.offend(&what, "RFC 9000 4.1/19.10: FLOW_CONTROL_ERROR if the sender violates the stream data limit advertised for a locally initiated bidirectional stream (initial_max_stream_data_bidi_local)", &[FLOW], true, bytes)?;
            }
            Op::OverStreamLimit(ty) => {
                let st = s.m.get(ty, 0);
                let id = s.peer_id(ty, 0);
                let end = st.adv_limit + 1;
                let bytes = s.stream_frame(id, end - 3, &[JUNK; 3], false);
                s.m.note_open(ty, 0);
                s.offend(&what, "RFC 9000 4.1/19.10: FLOW_CONTROL_ERROR if the sender violates the advertised stream data limit", &[FLOW], true, bytes)?;
            }
            Op::OverConnLimit => {
                let (fills, (oty, oidx, olen)) = s.conn_attack_plan().expect("enabled only with a plan");
                for (ty, idx, len) in fills {
                    let st = s.m.get(ty, idx);
                    let id = s.peer_id(ty, idx as u64);
                    let data = prf_vec(key_of(ty, idx as u64), st.end, len as usize);
                    let bytes = s.stream_frame(id, st.end, &data, false);
                    s.honest(&format!("{} (fill {:?}#{} +{})", what, ty, idx, len), bytes)?;
                    s.m.stream(ty, idx).end += len;
                    s.m.note_open(ty, idx as u64);
                }
                let st = s.m.get(oty, oidx);
                let id = s.peer_id(oty, oidx as u64);
                let junk = vec![JUNK; olen as usize];
                let bytes = s.stream_frame(id, st.end, &junk, false);
                s.m.note_open(oty, oidx as u64);
                s.offend(&what, "RFC 9000 4.1/19.9: FLOW_CONTROL_ERROR if more data than the maximum data value is received", &[FLOW], true, bytes)?;
            }
            Op::StreamIdOverLimit(ty, w) => {
                let lim = s.m.adv_max_streams[ty.ix()];
                let idx = match w {
                    Which::AtLimit => lim,
                    Which::LimitPlus1 => lim + 1,
                    Which::Max => (1u64 << 60) - 1,
                };
                let id = s.peer_id(ty, idx);
                let bytes = s.stream_frame(id, 0, &[JUNK], false);
                s.offend(&what, "RFC 9000 4.6/19.11: STREAM_LIMIT_ERROR for a stream ID exceeding the limit sent", &[LIMIT], true, bytes)?;
            }
            Op::SecondFin(ty, d) => {
                let st = s.m.get(ty, 0);
                let f = st.fin.unwrap();
                let id = s.peer_id(ty, 0);
                let bytes = if d > 0 { s.stream_frame(id, f, &[JUNK], true) } else { s.stream_frame(id, f - 1, &[], true) };
                // RFC 9000 4.5: not mandatory once the stream is closed (all data read)
                let terminal = st.read == f;
                let mut allowed = vec![FINAL];
                if d > 0 && f + 1 > st.adv_limit {
                    allowed.push(FLOW);
                }
                s.offend(&what, "RFC 9000 4.5: FINAL_SIZE_ERROR when a STREAM frame changes the final size", &allowed, !terminal, bytes)?;
            }
            Op::DataBeyondFinal(ty) => {
                let st = s.m.get(ty, 0);
                let f = st.fin.unwrap();
                let id = s.peer_id(ty, 0);
                let bytes = s.stream_frame(id, f, &[JUNK], false);
                let terminal = st.read == f;
                let mut allowed = vec![FINAL];
                if f + 1 > st.adv_limit {
                    allowed.push(FLOW);
                }
                s.offend(&what, "RFC 9000 4.5: FINAL_SIZE_ERROR for data at or beyond the final size", &allowed, !terminal, bytes)?;
            }
            Op::DataStraddlingFinal(ty) => {
                let st = s.m.get(ty, 0);
                let f = st.fin.unwrap();
                let id = s.peer_id(ty, 0);
                // the byte below the final size repeats what was honestly sent there
                let data = [prf_byte(key_of(ty, 0), f - 1), JUNK];
                let bytes = s.stream_frame(id, f - 1, &data, false);
                let terminal = st.read == f;
                let mut allowed = vec![FINAL];
                if f + 1 > st.adv_limit {
                    allowed.push(FLOW);
                }
                s.offend(&what, "RFC 9000 4.5: FINAL_SIZE_ERROR for data extending beyond the final size", &allowed, !terminal, bytes)?;
            }
            Op::ResetFinalMismatch(ty, d) => {
                let st = s.m.get(ty, 0);
                let f = st.fin.unwrap();
                let id = s.peer_id(ty, 0);
                let fs = if d > 0 { f + 1 } else { f - 1 };
                let bytes = s.reset_frame(id, fs);
                let terminal = st.read == f;
                let mut allowed = vec![FINAL];
                if fs > st.adv_limit {
                    allowed.push(FLOW);
                }
                s.offend(&what, "RFC 9000 4.5: FINAL_SIZE_ERROR when a RESET_STREAM changes the final size", &allowed, !terminal, bytes)?;
            }
            Op::ResetBelowReceived(ty) => {
                let st = s.m.get(ty, 0);
                let id = s.peer_id(ty, 0);
                let bytes = s.reset_frame(id, st.end - 1);
                s.offend(&what, "RFC 9000 4.5: final size below data already sent (data at or beyond the final size -> FINAL_SIZE_ERROR)", &[FINAL], true, bytes)?;
            }
            Op::FinBelowReceived(ty) => {
                let st = s.m.get(ty, 0);
                let id = s.peer_id(ty, 0);
                let bytes = s.stream_frame(id, st.end - 1, &[], true);
                s.offend(&what, "RFC 9000 4.5: FINAL_SIZE_ERROR when a STREAM frame announces a final size below data already sent", &[FINAL], true, bytes)?;
            }
            Op::ResetOverLimit(ty) => {
                let st = s.m.get(ty, 0);
                let id = s.peer_id(ty, 0);
                let bytes = s.reset_frame(id, st.adv_limit + 1);
                s.m.note_open(ty, 0);
                s.offend(&what, "RFC 9000 4.5+4.1: the final size counts against flow control -> FLOW_CONTROL_ERROR", &[FLOW], true, bytes)?;
            }
            Op::OnLocalUni(kind) => {
                let id = s.local_id(Ty::Uni, 0);
                let bytes = s.kind_frame(id, kind);
                s.offend(&what, "RFC 9000 19.8/19.4/19.13: STREAM_STATE_ERROR for STREAM, RESET_STREAM, STREAM_DATA_BLOCKED on a send-only stream", &[STATE], true, bytes)?;
            }
            Op::OnPeerUni(kind) => {
                let id = s.peer_id(Ty::Uni, 0);
                let bytes = s.kind_frame(id, kind);
                s.m.note_open(Ty::Uni, 0);
                s.offend(&what, "RFC 9000 19.10/19.5: STREAM_STATE_ERROR for MAX_STREAM_DATA, STOP_SENDING on a receive-only stream", &[STATE], true, bytes)?;
            }
            Op::OnUnopenedLocal(ty, kind) => {
                let idx = if s.m.local_opened[ty.ix()] { 1 } else { 0 };
                let id = s.local_id(ty, idx);
                let bytes = s.kind_frame(id, kind);
                s.offend(&what, "RFC 9000 19.8/19.10/19.5 (3.2): STREAM_STATE_ERROR for a frame on a locally initiated stream that has not been created", &[STATE], true, bytes)?;
            }
            Op::MaxStreamsTooLarge(ty) => {
                let bytes = enc(&MaxStreams { stream_type: ty.st(), maximum_streams: VarInt::new((1u64 << 60) + 1).unwrap() });
                s.offend(&what, "RFC 9000 19.11: FRAME_ENCODING_ERROR for MAX_STREAMS above 2^60", &[ENCODING], true, bytes)?;
            }
        }
        // a connection that hit a transport error only sends CONNECTION_CLOSE from here on: the
        // stream manager is not asked to transmit any more
        if !s.m.dead {
            s.transmit_and_check_credit()?;
        }
        s.refresh_render();
        Ok(())
    }
}

pub fn run(tier: Tier, out: &mut Output) {
    let depth = tier.pick(8, 11);
    let wall = tier.pick(25.0, 280.0);
    for cfg in CONFIGS.iter().copied() {
        let lim = Limits::depth(depth).wall(wall);
        let collector = Collector::new(1);
        let c2 = collector.clone();
        let mut rep = explore(ENGINE, &format!("advmgr/{}", cfg.name), cfg.json(), &move || init(cfg, Some(c2.clone())), &lim);
        collector.attach(&mut rep, &cfg.json(), &move || init(cfg, None));
        out.push(rep);
    }
}

pub fn replay(cfg: &Json, hist: &[u16]) -> Result<Vec<String>, (Vec<String>, Violation)> {
    let cfg = Cfg::from_json(cfg).ok_or_else(|| (Vec::new(), Violation::new("machinery.replay", "unknown advmgr config in replay file")))?;
    mccore::replay_history(&move || init(cfg, None), hist)
}

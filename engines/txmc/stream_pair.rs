// txmc family `streampair`: two REAL `StreamImpl`s - A (the sending application's endpoint) and
// B (the peer's receiving side of the same stream id) - each in its own `TestEnvironment` from the
// crate-private `stream::testing`, joined by a bag (multiset) of in-flight frames.
//
// Every transition is one call into the real code:
//   application calls on A   write(3|5 B) / finish+flush / reset       (`poll_request`)
//   A.transmit(capacity)      `on_transmit` into the crate's `MockWriteContext`; the frames are
//                             decoded with the crate's own frame decoder and moved into the bag,
//                             tagged with the packet number the mock context assigned
//   deliver / deliver-keep    a bag frame is handed to B (`on_data`, `on_reset`,
//                             `on_stream_data_blocked`), removed or kept (duplicate)
//   ack(pn) / lose(pn)        `on_packet_ack` / `on_packet_loss` on A
//   application calls on B    read(1 | unlimited) / stop_sending
//   B.transmit, deliver B->A  MAX_STREAM_DATA / STOP_SENDING travelling back
//   credit                    MAX_STREAM_DATA(v) / MAX_DATA(v) handed to A for v in
//                             {lower, equal, +1, +5} (stale and non-increasing updates included)
//
// Oracles are a plain reference model (integers, byte arrays) - see `Model` - evaluated after every
// step. Which clauses are active depends on the `Focus` (one per property served), so that
// `./check C01` never fails because of a C03 clause and vice versa.

use super::mccore::{self, ensure, explore, key128, prf_byte, prf_vec, Json, Limits, Output, Sys, Tier, Violation};
use super::super::testing::*;
use super::super::{
    stream_interests::StreamInterestProvider, StreamEvents, StreamTrait,
};
use super::{scrub, Collector, Threadbound, ENGINE};
use std::sync::Arc;
use crate::transmission;
use bytes::Bytes;
use core::task::{Context, Waker};
use futures_test::task::{new_count_waker, AwokenCount};
use s2n_quic_core::{
    application::Error as AppError,
    endpoint,
    frame::{Frame, MaxData, MaxStreamData, ResetStream, StopSending, StreamDataBlocked},
    stream::{ops, StreamId, StreamType},
    varint::VarInt,
};
use std::collections::BTreeMap;

const KEY: u64 = 0xA11CE;
/// total bytes the sending application may write (bounds the space)
const MAX_WRITTEN: u64 = 13;
const BAG_CAP: usize = 3;
const BACK_BAG_CAP: usize = 2;
const N: usize = 16; // size of the per-offset tables (> MAX_WRITTEN)
const RESET_CODE: u64 = 7;
const STOP_CODE: u64 = 9;

#[derive(Clone, Copy, Debug, PartialEq, Eq)]
pub enum Focus {
    C01,
    C02,
    C03,
    C12,
}

impl Focus {
    pub fn tag(self) -> &'static str {
        match self {
            Focus::C01 => "c01",
            Focus::C02 => "c02",
            Focus::C03 => "c03",
            Focus::C12 => "c12",
        }
    }
}

#[derive(Clone, Copy, Debug, PartialEq, Eq)]
pub struct Cfg {
    pub name: &'static str,
    /// per-stream send limit A starts with (the peer's initial_max_stream_data)
    pub stream_limit: u64,
    /// connection send limit A starts with (the peer's initial_max_data)
    pub conn_limit: u64,
    pub unidirectional: bool,
    /// A's send buffer (`max_send_buffer_size`); small values make writers block until ACKs
    pub send_buffer: u64,
    /// offer MAX_STREAM_DATA updates
    pub stream_credit_ops: bool,
    /// offer MAX_DATA updates and a competing stream taking connection credit
    pub conn_credit_ops: bool,
}

pub const CONFIGS: &[Cfg] = &[
    Cfg { name: "s10-c1000-bidi", stream_limit: 10, conn_limit: 1000, unidirectional: false, send_buffer: 16384, stream_credit_ops: true, conn_credit_ops: false },
    Cfg { name: "s1000-c10-uni", stream_limit: 1000, conn_limit: 10, unidirectional: true, send_buffer: 16384, stream_credit_ops: false, conn_credit_ops: true },
    Cfg { name: "s8-c8-bidi-buf6", stream_limit: 8, conn_limit: 8, unidirectional: false, send_buffer: 6, stream_credit_ops: true, conn_credit_ops: true },
];

impl Cfg {
    fn json(&self) -> Json {
        Json::obj()
            .set("name", self.name)
            .set("stream_limit", self.stream_limit)
            .set("conn_limit", self.conn_limit)
            .set("unidirectional", self.unidirectional)
            .set("send_buffer", self.send_buffer)
    }
    fn from_json(j: &Json) -> Option<Cfg> {
        let name = j.get("name")?.as_str()?;
        CONFIGS.iter().copied().find(|c| c.name == name)
    }
}

// ---------------------------------------------------------------------------------------------
// frames in flight
// ---------------------------------------------------------------------------------------------

#[derive(Clone, Debug, PartialEq, Eq, PartialOrd, Ord, Hash)]
enum Wire {
    Stream { off: u64, data: Vec<u8>, fin: bool },
    Reset { code: u64, final_size: u64 },
    StreamDataBlocked { limit: u64 },
    MaxStreamData(u64),
    StopSending(u64),
    MaxData(u64),
    DataBlocked(u64),
    Other(String),
}

#[derive(Clone, Debug, PartialEq, Eq, PartialOrd, Ord, Hash)]
struct InFlight {
    wire: Wire,
    pn: u64,
}

fn decode(frames: &mut OutgoingFrameBuffer) -> Vec<InFlight> {
    let mut out = Vec::new();
    while let Some(mut f) = frames.pop_front() {
        let pn = f.packet_nr.as_u64();
        let wire = match f.as_frame() {
            Frame::Stream(mut s) => Wire::Stream {
                off: s.offset.as_u64(),
                fin: s.is_fin,
                data: s.data.as_less_safe_slice_mut().to_vec(),
            },
            Frame::ResetStream(r) => Wire::Reset { code: r.application_error_code.as_u64(), final_size: r.final_size.as_u64() },
            Frame::StreamDataBlocked(b) => Wire::StreamDataBlocked { limit: b.stream_data_limit.as_u64() },
            Frame::MaxStreamData(m) => Wire::MaxStreamData(m.maximum_stream_data.as_u64()),
            Frame::StopSending(s) => Wire::StopSending(s.application_error_code.as_u64()),
            Frame::MaxData(m) => Wire::MaxData(m.maximum_data.as_u64()),
            Frame::DataBlocked(b) => Wire::DataBlocked(b.data_limit.as_u64()),
            other => Wire::Other(format!("{:?}", other)),
        };
        out.push(InFlight { wire, pn });
    }
    out
}

// ---------------------------------------------------------------------------------------------
// operations
// ---------------------------------------------------------------------------------------------

#[derive(Clone, Copy, Debug, PartialEq, Eq)]
pub enum Cap {
    Large,
    P11,
    P6,
}

#[derive(Clone, Copy, Debug, PartialEq, Eq)]
pub enum Stale {
    Lower,
    Equal,
}

#[derive(Clone, Debug, PartialEq, Eq)]
pub enum Op {
    Write(u8),
    TransmitA(Cap),
    Deliver(u8),
    ReadB { max: bool },
    Ack(u64),
    Lose(u64),
    Finish,
    DeliverKeep(u8),
    Reset,
    /// B enlarges its receive window by `d` and the MAX_STREAM_DATA carrying the new limit reaches A
    RaiseStream(u8),
    /// a MAX_STREAM_DATA that does not increase A's limit reaches A
    StaleStream(Stale),
    /// MAX_DATA(current + d) reaches A's connection flow controller
    RaiseConn(u8),
    StaleConn(Stale),
    /// another stream of the same connection takes `n` bytes of connection credit
    Competitor(u8),
    StopSendingB,
    TransmitB,
    DeliverBack(u8),
    /// wire-only focus (C03/C12): a STOP_SENDING from the peer reaches A
    StopSendingAtA,
}

// ---------------------------------------------------------------------------------------------
// reference model
// ---------------------------------------------------------------------------------------------

#[derive(Clone, Copy, Debug, PartialEq, Eq, Hash)]
enum Waiting {
    /// a write found the send buffer full
    Space,
    /// finish+flush waits for the acknowledgement of all data and the FIN
    Flush,
}

#[derive(Clone, Debug, Hash)]
struct Pkt {
    /// frames of the packet that have not reached B yet (an honest peer acknowledges a packet only
    /// after it received it)
    undelivered: u8,
    /// byte ranges of STREAM frames in the packet
    ranges: Vec<(u64, u64)>,
    fin: bool,
    reset: bool,
}

#[derive(Clone, Debug, Hash)]
struct Model {
    // ---- sending application (A)
    written: u64,
    finish_called: bool,
    app_reset: bool,
    a_error_seen: bool,
    a_waiting: Option<(Waiting, usize)>,
    // ---- credit A has received from its peer (largest values)
    lim_stream: u64,
    lim_conn: u64,
    /// connection credit taken by the competing stream
    competitor: u64,
    // ---- what A has put on the wire
    sent: [Option<u8>; N],
    max_sent_end: u64,
    fin_wire: Option<u64>,
    reset_wire: Option<u64>,
    outstanding: BTreeMap<u64, Pkt>,
    acked: [bool; N],
    /// packets that carried the FIN bit: sent / acknowledged / declared lost. The sender tracks
    /// the FIN with ONE of them (an implementation detail), so the model only knows for sure that
    /// the FIN is acknowledged when all of them are, and that it is not when none is.
    fin_pkts: u8,
    fin_pkts_acked: u8,
    fin_pkts_lost: u8,
    stop_sending_at_a: bool,
    // ---- receiving side (B)
    b_recv: [bool; N],
    b_fin: Option<u64>,
    b_reset_delivered: bool,
    b_read: u64,
    b_eof: bool,
    b_error: bool,
    b_stopped: bool,
    b_waiting: Option<usize>,
    /// B answered a frame with a transport error: the connection is gone (only in the C01/C02
    /// focus, where that error is C03's business and simply ends the history)
    closed: bool,
}

impl Model {
    fn new(cfg: &Cfg) -> Model {
        Model {
            written: 0,
            finish_called: false,
            app_reset: false,
            a_error_seen: false,
            a_waiting: None,
            lim_stream: cfg.stream_limit,
            lim_conn: cfg.conn_limit,
            competitor: 0,
            sent: [None; N],
            max_sent_end: 0,
            fin_wire: None,
            reset_wire: None,
            outstanding: BTreeMap::new(),
            acked: [false; N],
            fin_pkts: 0,
            fin_pkts_acked: 0,
            fin_pkts_lost: 0,
            stop_sending_at_a: false,
            b_recv: [false; N],
            b_fin: None,
            b_reset_delivered: false,
            b_read: 0,
            b_eof: false,
            b_error: false,
            b_stopped: false,
            b_waiting: None,
            closed: false,
        }
    }

    /// contiguous prefix of stream bytes that B has received
    fn b_contiguous(&self) -> u64 {
        self.b_recv.iter().take_while(|x| **x).count() as u64
    }

    /// contiguous prefix of stream bytes that have been acknowledged to A
    fn acked_prefix(&self) -> u64 {
        self.acked.iter().take_while(|x| **x).count() as u64
    }

    /// highest offset A may send up to, according to the credit it has received
    fn window(&self) -> u64 {
        self.lim_stream.min(self.lim_conn.saturating_sub(self.competitor))
    }

    /// Has A delivered everything (all bytes and the FIN acknowledged)? `None` = the model cannot
    /// tell (copies of the FIN travelled in several packets and only some were acknowledged).
    fn a_done(&self) -> Option<bool> {
        if !self.finish_called || self.acked_prefix() < self.written || self.fin_pkts_acked == 0 {
            Some(false)
        } else if self.fin_pkts_acked == self.fin_pkts && self.fin_pkts_lost == 0 {
            Some(true)
        } else {
            None
        }
    }

    fn a_cancelled(&self) -> bool {
        self.app_reset || self.stop_sending_at_a
    }
}

// ---------------------------------------------------------------------------------------------
// the system
// ---------------------------------------------------------------------------------------------

pub struct Pair {
    cfg: Cfg,
    focus: Focus,
    /// thorough tier: wider alphabet
    wide: bool,
    a: TestEnvironment,
    b: TestEnvironment,
    a_waker: Waker,
    a_wakes: AwokenCount,
    b_waker: Waker,
    b_wakes: AwokenCount,
    bag: Vec<InFlight>,
    back: Vec<InFlight>,
    collector: Option<Arc<Collector>>,
    trace: Vec<String>,
    violated: bool,
    m: Model,
}

fn stream_id(cfg: &Cfg) -> StreamId {
    StreamId::initial(
        endpoint::Type::Client,
        if cfg.unidirectional { StreamType::Unidirectional } else { StreamType::Bidirectional },
    )
}

pub fn init(cfg: Cfg, focus: Focus, wide: bool, collector: Option<Arc<Collector>>) -> Threadbound<Pair> {
    let id = stream_id(&cfg);
    let mut a_cfg = TestEnvironmentConfig::new(endpoint::Type::Client);
    a_cfg.stream_id = id;
    a_cfg.initial_send_window = cfg.stream_limit;
    a_cfg.initial_connection_send_window_size = cfg.conn_limit;
    a_cfg.max_send_buffer_size = cfg.send_buffer as usize;
    let a = setup_stream_test_env_with_config(a_cfg);

    let mut b_cfg = TestEnvironmentConfig::new(endpoint::Type::Server);
    b_cfg.stream_id = id;
    // B advertised exactly the stream limit A starts with and keeps a window of that size open
    b_cfg.initial_receive_window = cfg.stream_limit;
    b_cfg.desired_flow_control_window = cfg.stream_limit as u32;
    // the connection-level receive side of B is deliberately generous: connection credit reaches A
    // through the RaiseConn / StaleConn operations only
    b_cfg.initial_connection_receive_window_size = 100_000;
    b_cfg.desired_connection_flow_control_window = 100_000;
    let b = setup_stream_test_env_with_config(b_cfg);

    let (a_waker, a_wakes) = new_count_waker();
    let (b_waker, b_wakes) = new_count_waker();
    Threadbound(Pair { cfg, focus, wide, a, b, a_waker, a_wakes, b_waker, b_wakes, bag: Vec::new(), back: Vec::new(), collector, trace: Vec::new(), violated: false, m: Model::new(&cfg) })
}

fn app(code: u64) -> AppError {
    AppError::new(code).unwrap()
}

impl Pair {
    fn on(&self, f: Focus) -> bool {
        self.focus == f
    }

    /// C03 and C12 constrain only what A puts on the wire: B is not exercised, frames are
    /// checked and dropped, packets may be acknowledged or lost at any time
    fn wire_only(&self) -> bool {
        matches!(self.focus, Focus::C03 | Focus::C12)
    }

    fn stop_sending_to_a(&mut self, code: u64) -> Result<(), Violation> {
        let id = self.a.stream.stream_id;
        let mut events = StreamEvents::new();
        let frame = StopSending { stream_id: id.into(), application_error_code: VarInt::new(code).unwrap() };
        let res = self.a.stream.on_stop_sending(&frame, &mut events);
        events.wake_all();
        ensure(res.is_ok(), "pair.stop_sending_rejected", || format!("A.on_stop_sending -> {:?}", res))?;
        // RFC 9000 3.5: ignored once everything including the FIN is acknowledged
        if !self.m.app_reset {
            match self.m.a_done() {
                Some(true) => {}
                Some(false) => self.m.stop_sending_at_a = true,
                // the model cannot tell whether the stream had finished: the history ends here
                None => self.m.closed = true,
            }
        }
        Ok(())
    }

    // ---- oracle for a frame A just wrote -------------------------------------------------

    fn check_a_frame(&mut self, f: &InFlight) -> Result<(), Violation> {
        let m = &mut self.m;
        let c03 = self.focus == Focus::C03;
        let c12 = self.focus == Focus::C12;
        match &f.wire {
            Wire::Stream { off, data, fin } => {
                let end = off + data.len() as u64;
                // C03: RFC 9000 4.1 "Senders MUST NOT send data in excess of either limit."
                ensure(!c03 || end <= m.lim_stream, "fc.stream_limit_exceeded", || {
                    format!("STREAM [{}..{}) sent with the largest MAX_STREAM_DATA/initial limit received = {}", off, end, m.lim_stream)
                })?;
                let high = end.max(m.max_sent_end);
                ensure(!c03 || high + m.competitor <= m.lim_conn, "fc.conn_limit_exceeded", || {
                    format!(
                        "STREAM [{}..{}): highest offset {} + {} bytes of the other stream exceed the largest MAX_DATA/initial limit received = {}",
                        off, end, high, m.competitor, m.lim_conn
                    )
                })?;
                // C12
                ensure(!c12 || m.reset_wire.is_none(), "txcons.stream_after_reset", || {
                    format!("STREAM [{}..{}) fin={} sent after RESET_STREAM(final_size {:?})", off, end, fin, m.reset_wire)
                })?;
                ensure(self.focus != Focus::C01 || end <= m.written, "data.sent_unwritten_bytes", || {
                    format!("STREAM [{}..{}) but the application wrote only {} bytes", off, end, m.written)
                })?;
                for (i, byte) in data.iter().enumerate() {
                    let o = (*off as usize) + i;
                    if o >= N {
                        return mccore::violation("data.sent_unwritten_bytes", format!("offset {} out of the model's range", o));
                    }
                    if let Some(prev) = m.sent[o] {
                        ensure(!c12 || prev == *byte, "txcons.retransmit_differs", || {
                            format!("offset {} first sent as {:#04x}, now sent as {:#04x} (frame [{}..{}))", o, prev, byte, off, end)
                        })?;
                    } else {
                        m.sent[o] = Some(*byte);
                    }
                    // C01: what goes on the wire is what the application wrote at that offset
                    // (a receiver can only ever read what was sent)
                    ensure(self.focus != Focus::C01 || *byte == prf_byte(KEY, o as u64), "data.altered_on_the_wire", || {
                        format!("offset {} written as {:#04x}, sent as {:#04x} (frame [{}..{}))", o, prf_byte(KEY, o as u64), byte, off, end)
                    })?;
                }
                if let Some(fsz) = m.fin_wire {
                    ensure(!c12 || end <= fsz, "txcons.data_beyond_final_size", || {
                        format!("STREAM [{}..{}) after a FIN announced final size {}", off, end, fsz)
                    })?;
                }
                if *fin {
                    if let Some(fsz) = m.fin_wire {
                        ensure(!c12 || end == fsz, "txcons.final_size_changed", || format!("FIN at {} after FIN at {}", end, fsz))?;
                    }
                    ensure(!c12 || end >= m.max_sent_end, "txcons.final_size_below_sent", || {
                        format!("FIN announces final size {} but data up to {} was sent", end, m.max_sent_end)
                    })?;
                    ensure(self.focus != Focus::C01 || (m.finish_called && end == m.written), "data.fin_without_finish", || {
                        format!("FIN at {} (finish called: {}, written {})", end, m.finish_called, m.written)
                    })?;
                    m.fin_wire = Some(end);
                }
                m.max_sent_end = high;
            }
            Wire::Reset { final_size, .. } => {
                // C03: "the final size in a RESET_STREAM it sends obeys the same limits"
                ensure(!c03 || *final_size <= m.lim_stream, "fc.reset_final_size_exceeds_stream_limit", || {
                    format!(
                        "RESET_STREAM final_size {} with the largest MAX_STREAM_DATA/initial limit received = {} (data sent up to {})",
                        final_size, m.lim_stream, m.max_sent_end
                    )
                })?;
                ensure(!c03 || final_size + m.competitor <= m.lim_conn, "fc.reset_final_size_exceeds_conn_limit", || {
                    format!("RESET_STREAM final_size {} + {} bytes of the other stream exceed the connection limit {}", final_size, m.competitor, m.lim_conn)
                })?;
                // C12
                if let Some(prev) = m.reset_wire {
                    ensure(!c12 || prev == *final_size, "txcons.final_size_changed", || format!("RESET_STREAM final size {} after RESET_STREAM final size {}", final_size, prev))?;
                }
                if let Some(fsz) = m.fin_wire {
                    ensure(!c12 || fsz == *final_size, "txcons.final_size_changed", || format!("RESET_STREAM final size {} after a FIN at {}", final_size, fsz))?;
                }
                ensure(!c12 || *final_size >= m.max_sent_end, "txcons.final_size_below_sent", || {
                    format!("RESET_STREAM final size {} but data up to {} was sent", final_size, m.max_sent_end)
                })?;
                ensure(self.focus != Focus::C02 || m.a_cancelled(), "live.reset_without_cause", || "RESET_STREAM without reset() or STOP_SENDING".to_string())?;
                m.reset_wire = Some(*final_size);
            }
            Wire::StreamDataBlocked { limit } => {
                ensure(!c12 || m.reset_wire.is_none(), "txcons.blocked_after_reset", || {
                    format!("STREAM_DATA_BLOCKED({}) sent after RESET_STREAM", limit)
                })?;
            }
            _ => {}
        }
        Ok(())
    }

    // ---- transmit helpers ------------------------------------------------------------------

    fn transmit_a(&mut self, cap: Cap) -> Result<(), Violation> {
        let size = match cap {
            Cap::Large => None,
            Cap::P11 => Some(11),
            Cap::P6 => Some(6),
        };
        self.a.sent_frames.set_max_packet_size(size);
        {
            let env = &mut self.a;
            let mut ctx = MockWriteContext::new(
                env.current_time,
                &mut env.sent_frames,
                transmission::Constraint::None,
                transmission::Mode::Normal,
                env.endpoint,
            );
            let _ = env.stream.on_transmit(&mut ctx);
        }
        self.a.sent_frames.flush();
        // back to the canonical mode so that the frame buffer's Debug rendering (part of the key)
        // does not remember the capacity of the last transmission
        self.a.sent_frames.set_max_packet_size(None);
        let frames = decode(&mut self.a.sent_frames);
        for f in frames {
            self.check_a_frame(&f)?;
            let mut new_fin_pkt = false;
            let pkt = self.m.outstanding.entry(f.pn).or_insert(Pkt { undelivered: 0, ranges: Vec::new(), fin: false, reset: false });
            pkt.undelivered += 1;
            match &f.wire {
                Wire::Stream { off, data, fin } => {
                    if !data.is_empty() {
                        pkt.ranges.push((*off, off + data.len() as u64));
                    }
                    if *fin && !pkt.fin {
                        new_fin_pkt = true;
                    }
                    pkt.fin |= *fin;
                }
                Wire::Reset { .. } => pkt.reset = true,
                _ => {}
            }
            if new_fin_pkt {
                self.m.fin_pkts += 1;
            }
            // frames that do not fit into the bounded bag are dropped by the network: they can
            // never be delivered, so their packet can only be declared lost
            if !self.wire_only() && self.bag.len() < BAG_CAP {
                self.bag.push(f);
            }
        }
        self.bag.sort();
        Ok(())
    }

    fn transmit_b(&mut self) -> Result<(), Violation> {
        {
            let env = &mut self.b;
            let mut ctx = MockWriteContext::new(
                env.current_time,
                &mut env.sent_frames,
                transmission::Constraint::None,
                transmission::Mode::Normal,
                env.endpoint,
            );
            let _ = env.rx_connection_flow_controller.on_transmit(&mut ctx);
            let _ = env.stream.on_transmit(&mut ctx);
        }
        self.b.sent_frames.flush();
        for f in decode(&mut self.b.sent_frames) {
            if self.back.len() < BACK_BAG_CAP {
                self.back.push(f);
            }
        }
        self.back.sort();
        Ok(())
    }

    fn deliver_to_b(&mut self, f: &InFlight) -> Result<(), Violation> {
        let id = self.b.stream.stream_id;
        let mut events = StreamEvents::new();
        match &f.wire {
            Wire::Stream { off, data, fin } => {
                let frame = stream_data(id, VarInt::new(*off).unwrap(), &data[..], *fin);
                let res = self.b.stream.on_data(&frame, &mut events);
                // differential extra: s2n's own receiver must accept what s2n's sender produced
                if res.is_err() {
                    // B closes the connection. Whether A was entitled to send this frame is
                    // decided by the wire clauses of C03/C12; here the history simply ends.
                    self.m.closed = true;
                    return Ok(());
                }
                if !self.m.b_reset_delivered && !self.m.b_stopped {
                    for o in *off..off + data.len() as u64 {
                        self.m.b_recv[o as usize] = true;
                    }
                    if *fin {
                        self.m.b_fin = Some(off + data.len() as u64);
                    }
                }
            }
            Wire::Reset { code, final_size } => {
                let frame = ResetStream { stream_id: id.into(), application_error_code: VarInt::new(*code).unwrap(), final_size: VarInt::new(*final_size).unwrap() };
                let res = self.b.stream.on_reset(&frame, &mut events);
                if res.is_err() {
                    // B closes the connection. Whether A was entitled to send this frame is
                    // decided by the wire clauses of C03/C12; here the history simply ends.
                    self.m.closed = true;
                    return Ok(());
                }
                // RFC 9000 3.2: a RESET_STREAM received after all data (Data Recvd) may be ignored
                let all_received = self.m.b_fin.map_or(false, |f| self.m.b_contiguous() >= f);
                // RFC 9000 4.5: the final size is the amount of connection flow-control credit the stream
                // consumed - once B accepted a RESET_STREAM it must have charged exactly that much (whatever
                // it ignored while stopping) and, when the reset ended the stream (nothing is left for the
                // application to read), handed all of it back to the peer; otherwise every reset stream
                // leaks connection credit until nothing can be sent on any stream
                if self.on(Focus::C02) {
                    let fc = &self.b.rx_connection_flow_controller;
                    let acquired = fc.acquired_window().as_u64();
                    ensure(acquired == *final_size, "live.conn_credit_not_charged_on_reset", || {
                        format!("B accepted RESET_STREAM(final size {}) but charged {} bytes of connection credit for the stream", final_size, acquired)
                    })?;
                    let remaining = fc.remaining_window().as_u64();
                    ensure(all_received || remaining == 100_000, "live.conn_credit_leak_on_reset", || {
                        format!("after RESET_STREAM(final size {}) ended the stream B's connection window still withholds {} bytes (remaining {}, configured 100000)", final_size, 100_000 - remaining.min(100_000), remaining)
                    })?;
                }
                if !all_received {
                    self.m.b_reset_delivered = true;
                }
            }
            Wire::StreamDataBlocked { limit } => {
                let frame = StreamDataBlocked { stream_id: id.into(), stream_data_limit: VarInt::new(*limit).unwrap() };
                let _ = self.b.stream.on_stream_data_blocked(&frame, &mut events);
            }
            _ => {}
        }
        events.wake_all();
        if let Some(pkt) = self.m.outstanding.get_mut(&f.pn) {
            pkt.undelivered = pkt.undelivered.saturating_sub(1);
        }
        Ok(())
    }

    fn max_stream_data_to_a(&mut self, v: u64) -> Result<(), Violation> {
        let id = self.a.stream.stream_id;
        let mut events = StreamEvents::new();
        let frame = MaxStreamData { stream_id: id.into(), maximum_stream_data: VarInt::new(v).unwrap() };
        let res = self.a.stream.on_max_stream_data(&frame, &mut events);
        events.wake_all();
        ensure(res.is_ok(), "pair.max_stream_data_rejected", || format!("A.on_max_stream_data({}) -> {:?}", v, res))?;
        self.m.lim_stream = self.m.lim_stream.max(v);
        Ok(())
    }

    fn max_data_to_a(&mut self, v: u64) {
        // what `AbstractStreamManager::on_max_data` does: update the controller, then let every
        // stream that waits for connection credit grab it
        self.a.tx_connection_flow_controller.on_max_data(MaxData { maximum_data: VarInt::new(v).unwrap() });
        if self.a.tx_connection_flow_controller.available_window() > VarInt::from_u8(0)
            && self.a.stream.get_stream_interests().connection_flow_control_credits
        {
            self.a.stream.on_connection_window_available();
        }
        self.m.lim_conn = self.m.lim_conn.max(v);
    }

    // ---- liveness-ish clauses, evaluated after every step (focus C02) -------------------------

    fn check_liveness(&mut self) -> Result<(), Violation> {
        if !self.on(Focus::C02) {
            return Ok(());
        }
        let m = &self.m;
        let interests = self.a.stream.get_stream_interests();
        if !m.a_cancelled() {
            // (1) unsent data inside both limits => A asks to transmit.
            //
            // Allowance (behaviour C02 does not constrain): the flow controller keeps ONE blocked
            // state. (a) When a packet's remaining capacity, not the window, cut a transmission
            // short, `acquire_flow_control_window` has already marked the stream blocked for the
            // part beyond the limit and the few bytes of window the frame header displaced stay
            // unsent until the next credit arrives. (b) A stream short of stream AND connection
            // credit is recorded as blocked on the connection only, so a MAX_STREAM_DATA alone
            // does not re-arm it. In both cases the stream cannot finish without further credit
            // of the kind it is registered for (written > that limit), and the arrival of that
            // credit re-arms it - nothing is parked forever. What is NOT excused: no interest
            // while registered for nothing, or for a credit kind that is no longer needed.
            let window = m.window();
            let conn_avail = m.lim_conn.saturating_sub(m.competitor);
            let sendable_data = m.max_sent_end < m.written && m.max_sent_end < window;
            let exempt = (interests.stream_flow_control_credits && m.written > m.lim_stream)
                || (interests.connection_flow_control_credits && m.written > conn_avail);
            ensure(!sendable_data || exempt || !interests.transmission.is_none(), "live.no_transmission_interest", || {
                format!(
                    "bytes [{}..{}) are buffered and unsent, stream limit {}, connection limit {} (other stream {}), but the stream has no transmission interest ({:?})",
                    m.max_sent_end, m.written, m.lim_stream, m.lim_conn, m.competitor, interests
                )
            })?;
            // (2) a FIN that is still owed and not blocked by unsent data
            let fin_owed = m.finish_called && m.fin_wire.is_none() && m.max_sent_end == m.written;
            ensure(!fin_owed || !interests.transmission.is_none(), "live.no_transmission_interest_for_fin", || {
                format!("finish() was called, all {} bytes were sent, no FIN on the wire yet, but no transmission interest ({:?})", m.written, interests)
            })?;
        }
        // (3) a RESET_STREAM that is owed (not owed when everything including the FIN had been
        // acknowledged before the reset; skipped when the model cannot tell)
        if m.a_cancelled() && m.reset_wire.is_none() && m.a_done() == Some(false) {
            ensure(!interests.transmission.is_none(), "live.no_transmission_interest_for_reset", || {
                format!("the stream was reset / asked to stop but neither a RESET_STREAM was sent nor is transmission requested ({:?})", interests)
            })?;
        }
        // (4) blocked writer / flusher is woken once the blocking condition is lifted
        if let Some((kind, count_at_registration)) = m.a_waiting {
            let lifted = match kind {
                Waiting::Space => m.acked_prefix() > 0 && (m.written - m.acked_prefix()) < self.cfg.send_buffer,
                Waiting::Flush => m.a_done() == Some(true),
            } || m.stop_sending_at_a;
            if lifted {
                ensure(self.a_wakes.get() > count_at_registration, "live.writer_not_woken", || {
                    format!(
                        "a writer waiting for {:?} was not woken: written {}, acknowledged prefix {}, fin acked {}, STOP_SENDING received {}",
                        kind, m.written, m.acked_prefix(), m.fin_pkts_acked, m.stop_sending_at_a
                    )
                })?;
            }
        }
        // (5) blocked reader is woken when data / the end of the stream / a reset arrives
        if let Some(count_at_registration) = m.b_waiting {
            let eof = m.b_fin.map_or(false, |f| m.b_contiguous() >= f);
            let lifted = m.b_contiguous() > m.b_read || eof || m.b_reset_delivered;
            if lifted {
                ensure(self.b_wakes.get() > count_at_registration, "live.reader_not_woken", || {
                    format!(
                        "a reader waiting at offset {} was not woken: contiguous {} fin {:?} reset {}",
                        m.b_read, m.b_contiguous(), m.b_fin, m.b_reset_delivered
                    )
                })?;
            }
        }
        Ok(())
    }

    fn after_wakes(&mut self) {
        // an application that was woken polls again; the next Write/Finish/Read op is that poll
        if let Some((_, c)) = self.m.a_waiting {
            if self.a_wakes.get() > c {
                self.m.a_waiting = None;
            }
        }
        if let Some(c) = self.m.b_waiting {
            if self.b_wakes.get() > c {
                self.m.b_waiting = None;
            }
        }
    }
}

impl Sys for Threadbound<Pair> {
    type Op = Op;

    fn ops(&self) -> Vec<Op> {
        let s = &self.0;
        let m = &s.m;
        let mut v = Vec::new();
        if m.closed {
            return v;
        }
        let wire_only = s.wire_only();
        let wide = s.wide;
        let focus = s.focus;
        let a_open = !m.finish_called && !m.app_reset && !m.a_error_seen;
        if a_open {
            for n in [3u8, 5u8] {
                if m.written + n as u64 <= MAX_WRITTEN {
                    v.push(Op::Write(n));
                }
            }
        }
        if wire_only || s.bag.len() < BAG_CAP {
            v.push(Op::TransmitA(Cap::Large));
            v.push(Op::TransmitA(Cap::P6));
            if wide || wire_only {
                v.push(Op::TransmitA(Cap::P11));
            }
        }
        if !wire_only {
            for i in 0..s.bag.len() {
                v.push(Op::Deliver(i as u8));
            }
            if !m.b_eof {
                v.push(Op::ReadB { max: true });
                if focus == Focus::C01 {
                    v.push(Op::ReadB { max: false });
                }
            }
        }
        for (pn, pkt) in m.outstanding.iter() {
            // an honest peer acknowledges only what it received; the wire-only focus does not
            // track delivery and lets any outstanding packet be acknowledged
            if wire_only || pkt.undelivered == 0 {
                v.push(Op::Ack(*pn));
            }
        }
        for pn in m.outstanding.keys() {
            v.push(Op::Lose(*pn));
        }
        if a_open {
            v.push(Op::Finish);
        }
        if !wire_only && (focus == Focus::C01 || wide) {
            for i in 0..s.bag.len() {
                v.push(Op::DeliverKeep(i as u8));
            }
        }
        if !m.app_reset && !m.a_error_seen {
            v.push(Op::Reset);
        }
        // credit: the complete {lower, equal, +1, +5} menu where limits are the subject (C03),
        // a reduced one elsewhere
        let full_credit = focus == Focus::C03 || (focus == Focus::C02 && wide);
        if s.cfg.stream_credit_ops {
            v.push(Op::RaiseStream(5));
            if full_credit || focus == Focus::C02 {
                v.push(Op::RaiseStream(1));
            }
            if full_credit || focus == Focus::C02 {
                v.push(Op::StaleStream(Stale::Equal));
            }
            if full_credit {
                v.push(Op::StaleStream(Stale::Lower));
            }
        }
        if s.cfg.conn_credit_ops {
            v.push(Op::RaiseConn(5));
            if full_credit || focus == Focus::C02 {
                v.push(Op::RaiseConn(1));
            }
            if full_credit || focus == Focus::C02 {
                v.push(Op::StaleConn(Stale::Equal));
            }
            if full_credit {
                v.push(Op::StaleConn(Stale::Lower));
            }
            if m.competitor == 0 && (focus == Focus::C03 || focus == Focus::C02) {
                v.push(Op::Competitor(4));
            }
        }
        if wire_only {
            if !m.stop_sending_at_a {
                v.push(Op::StopSendingAtA);
            }
        } else {
            if !m.b_stopped && !m.b_eof && !m.b_error {
                v.push(Op::StopSendingB);
            }
            if s.back.len() < BACK_BAG_CAP {
                v.push(Op::TransmitB);
            }
            for i in 0..s.back.len() {
                v.push(Op::DeliverBack(i as u8));
            }
        }
        v
    }

    fn step(&mut self, op: &Op) -> Result<(), Violation> {
        let s = &mut self.0;
        s.trace.push(format!("{:?}", op));
        match s.step_inner(op) {
            Ok(()) => Ok(()),
            Err(v) => match &s.collector {
                Some(c) => {
                    c.record(&v, s.trace.clone());
                    s.m.closed = true;
                    s.violated = true;
                    Ok(())
                }
                None => Err(v),
            },
        }
    }

    fn key(&self) -> u128 {
        let s = &self.0;
        if s.violated {
            return key128("violated");
        }
        let real = format!(
            "{:?}|{:?}|{:?}|{:?}|{:?}|{:?}",
            s.a.stream, s.a.tx_connection_flow_controller, s.a.sent_frames, s.b.stream, s.b.rx_connection_flow_controller, s.b.sent_frames
        );
        key128(&(scrub(&real), &s.bag, &s.back, &s.m, s.a_wakes.get() > 0, s.b_wakes.get() > 0))
    }

    fn outcome(&self) -> u64 {
        let m = &self.0.m;
        if self.0.violated {
            return u64::MAX;
        }
        let i = self.0.a.stream.get_stream_interests();
        let mut o = 0u64;
        o |= m.finish_called as u64;
        o |= (m.app_reset as u64) << 1;
        o |= (m.stop_sending_at_a as u64) << 2;
        o |= (m.fin_wire.is_some() as u64) << 3;
        o |= (m.reset_wire.is_some() as u64) << 4;
        o |= (m.b_eof as u64) << 5;
        o |= (m.b_error as u64) << 6;
        o |= (i.stream_flow_control_credits as u64) << 7;
        o |= (i.connection_flow_control_credits as u64) << 8;
        o |= (m.a_waiting.is_some() as u64) << 9;
        o |= (m.b_waiting.is_some() as u64) << 10;
        o |= ((m.b_read > 0) as u64) << 11;
        o |= ((m.max_sent_end > 0) as u64) << 12;
        o |= (m.closed as u64) << 13;
        o
    }
}

impl Pair {
    fn step_inner(&mut self, op: &Op) -> Result<(), Violation> {
        let s = self;
        match op {
            Op::Write(n) => {
                let mut chunk = [Bytes::from(prf_vec(KEY, s.m.written, *n as usize))];
                let mut req = ops::Request::default();
                req.send(&mut chunk);
                let cx = Context::from_waker(&s.a_waker);
                match s.a.stream.poll_request(&mut req, Some(&cx)) {
                    Ok(resp) => {
                        let tx = resp.tx.unwrap_or_default();
                        let consumed = tx.bytes.consumed as u64;
                        ensure(consumed == 0 || consumed == *n as u64, "pair.partial_chunk", || format!("write({}) consumed {} bytes", n, consumed))?;
                        s.m.written += consumed;
                        if consumed == 0 && tx.will_wake {
                            s.m.a_waiting = Some((Waiting::Space, s.a_wakes.get()));
                        } else if consumed > 0 {
                            // `poll_request` keeps a previously stored flush waiter only
                            if !tx.will_wake {
                                s.m.a_waiting = None;
                            }
                        }
                        // a refused write with free buffer space would be a lost write opportunity
                        if s.on(Focus::C02) && consumed == 0 {
                            let used = s.m.written - s.m.acked_prefix();
                            ensure(used >= s.cfg.send_buffer, "live.write_refused", || {
                                format!("write({}) refused although only {} of {} buffer bytes are in use", n, used, s.cfg.send_buffer)
                            })?;
                        }
                    }
                    Err(e) => {
                        ensure(s.m.a_cancelled(), "pair.spurious_write_error", || format!("write({}) -> {:?} without reset / STOP_SENDING", n, e))?;
                        s.m.a_error_seen = true;
                        s.m.a_waiting = None;
                    }
                }
            }
            Op::Finish => {
                let mut req = ops::Request::default();
                req.finish().flush();
                let cx = Context::from_waker(&s.a_waker);
                match s.a.stream.poll_request(&mut req, Some(&cx)) {
                    Ok(resp) => {
                        let tx = resp.tx.unwrap_or_default();
                        s.m.finish_called = true;
                        if tx.will_wake {
                            s.m.a_waiting = Some((Waiting::Flush, s.a_wakes.get()));
                        } else {
                            s.m.a_waiting = None;
                        }
                    }
                    Err(e) => {
                        ensure(s.m.a_cancelled(), "pair.spurious_finish_error", || format!("finish() -> {:?} without reset / STOP_SENDING", e))?;
                        s.m.a_error_seen = true;
                        s.m.a_waiting = None;
                    }
                }
            }
            Op::Reset => {
                let mut req = ops::Request::default();
                req.reset(app(RESET_CODE));
                let res = s.a.stream.poll_request(&mut req, None);
                ensure(res.is_ok(), "pair.reset_failed", || format!("reset() -> {:?}", res))?;
                s.m.app_reset = true;
                s.m.a_waiting = None;
            }
            Op::TransmitA(cap) => s.transmit_a(*cap)?,
            Op::Deliver(i) => {
                let f = s.bag.remove(*i as usize);
                s.deliver_to_b(&f)?;
            }
            Op::DeliverKeep(i) => {
                let f = s.bag[*i as usize].clone();
                s.deliver_to_b(&f)?;
            }
            Op::Ack(pn) => {
                let pkt = s.m.outstanding.remove(pn).expect("ack of an outstanding packet");
                for (a, b) in pkt.ranges.iter() {
                    for o in *a..*b {
                        s.m.acked[o as usize] = true;
                    }
                }
                s.m.fin_pkts_acked += pkt.fin as u8;
                let mut events = StreamEvents::new();
                s.a.stream.on_packet_ack(&pn_of(*pn), &mut events);
                events.wake_all();
            }
            Op::Lose(pn) => {
                if let Some(pkt) = s.m.outstanding.remove(pn) {
                    s.m.fin_pkts_lost += pkt.fin as u8;
                }
                let mut events = StreamEvents::new();
                s.a.stream.on_packet_loss(&pn_of(*pn), &mut events);
                events.wake_all();
            }
            Op::ReadB { max } => {
                let mut chunks = [Bytes::new()];
                let mut req = ops::Request::default();
                req.receive(&mut chunks);
                if !*max {
                    req.with_high_watermark(1);
                }
                let cx = Context::from_waker(&s.b_waker);
                let res = s.b.stream.poll_request(&mut req, Some(&cx));
                drop(req);
                let c01 = s.on(Focus::C01);
                match res {
                    Ok(resp) => {
                        let rx = resp.rx.unwrap_or_default();
                        let data = if rx.chunks.consumed == 1 { core::mem::take(&mut chunks[0]) } else { Bytes::new() };
                        let m = &mut s.m;
                        ensure(!c01 || !m.b_error || data.is_empty(), "data.read_after_error", || format!("read returned {} bytes after an error was reported", data.len()))?;
                        ensure(!c01 || *max || data.len() <= 1, "data.high_watermark_ignored", || format!("read(1) returned {} bytes", data.len()))?;
                        for (i, byte) in data.iter().enumerate() {
                            let o = m.b_read + i as u64;
                            ensure(!c01 || o < m.written, "data.read_beyond_written", || format!("read returned a byte for offset {} but only {} bytes were written", o, m.written))?;
                            ensure(!c01 || *byte == prf_byte(KEY, o), "data.content", || {
                                format!("byte read at offset {} is {:#04x}, the sender wrote {:#04x} (read of {} bytes at {})", o, byte, prf_byte(KEY, o), data.len(), m.b_read)
                            })?;
                        }
                        let visible = !m.b_reset_delivered && !m.b_stopped && !m.b_error;
                        // no byte lost: data that arrived contiguously is handed out
                        ensure(!c01 || !visible || m.b_contiguous() == m.b_read || !data.is_empty(), "data.withheld", || {
                            format!("read returned nothing although bytes [{}..{}) were received in order", m.b_read, m.b_contiguous())
                        })?;
                        m.b_read += data.len() as u64;
                        if rx.status.is_finished() {
                            ensure(!c01 || (m.finish_called && m.b_fin == Some(m.written) && m.b_read == m.written), "data.premature_eof", || {
                                format!("end of stream reported after {} bytes; finish called {}, written {}, FIN delivered {:?}", m.b_read, m.finish_called, m.written, m.b_fin)
                            })?;
                            m.b_eof = true;
                        } else if visible {
                            let complete = m.b_fin.map_or(false, |f| m.b_contiguous() >= f && m.b_read >= f);
                            ensure(!c01 || !complete, "data.eof_missing", || format!("all {} bytes and the FIN were received and read, but the read did not report the end of the stream ({:?})", m.b_read, rx.status))?;
                        }
                        if rx.will_wake {
                            m.b_waiting = Some(s.b_wakes.get());
                        } else {
                            m.b_waiting = None;
                        }
                    }
                    Err(e) => {
                        let m = &mut s.m;
                        ensure(!c01 || m.b_stopped || m.b_reset_delivered, "data.spurious_error", || format!("read -> {:?} although no RESET_STREAM was delivered and stop_sending was not called", e))?;
                        m.b_error = true;
                        m.b_waiting = None;
                    }
                }
            }
            Op::StopSendingB => {
                let mut req = ops::Request::default();
                req.stop_sending(app(STOP_CODE));
                let res = s.b.stream.poll_request(&mut req, None);
                ensure(res.is_ok(), "pair.stop_sending_failed", || format!("stop_sending() -> {:?}", res))?;
                // when everything was already buffered the call just finishes the stream
                let complete = s.m.b_fin.map_or(false, |f| s.m.b_contiguous() >= f);
                if complete {
                    s.m.b_eof = true;
                } else {
                    s.m.b_stopped = true;
                }
                s.m.b_waiting = None;
            }
            Op::TransmitB => s.transmit_b()?,
            Op::DeliverBack(i) => {
                let f = s.back.remove(*i as usize);
                match f.wire {
                    Wire::MaxStreamData(v) => s.max_stream_data_to_a(v)?,
                    Wire::StopSending(code) => s.stop_sending_to_a(code)?,
                    Wire::MaxData(v) => s.max_data_to_a(v),
                    _ => {}
                }
            }
            Op::StopSendingAtA => s.stop_sending_to_a(STOP_CODE)?,
            Op::RaiseStream(d) => {
                // B enlarges its stream receive window by d: exactly what `release_window` does
                // with a larger `desired_flow_control_window`
                let v = {
                    let fc = &mut s.b.stream.receive_stream.flow_controller;
                    fc.desired_flow_control_window += *d as u32;
                    let target = fc.released_connection_window.saturating_add(VarInt::from_u32(fc.desired_flow_control_window));
                    if target >= fc.read_window_sync.latest_value() {
                        fc.read_window_sync.update_latest_value(target);
                    }
                    fc.read_window_sync.latest_value().as_u64()
                };
                s.max_stream_data_to_a(v)?;
            }
            Op::StaleStream(k) => {
                let v = match k {
                    Stale::Equal => s.m.lim_stream,
                    Stale::Lower => s.m.lim_stream - 1,
                };
                s.max_stream_data_to_a(v)?;
            }
            Op::RaiseConn(d) => {
                let v = s.m.lim_conn + *d as u64;
                s.max_data_to_a(v);
            }
            Op::StaleConn(k) => {
                let v = match k {
                    Stale::Equal => s.m.lim_conn,
                    Stale::Lower => s.m.lim_conn - 1,
                };
                s.max_data_to_a(v);
            }
            Op::Competitor(n) => {
                let got = s.a.tx_connection_flow_controller.acquire_window(VarInt::from_u8(*n));
                s.m.competitor += got.as_u64();
            }
        }
        s.check_liveness()?;
        s.after_wakes();
        Ok(())
    }
}

fn pn_of(n: u64) -> s2n_quic_core::packet::number::PacketNumber {
    pn(n as usize)
}

// ---------------------------------------------------------------------------------------------
// driver
// ---------------------------------------------------------------------------------------------

fn family(focus: Focus, cfg: &Cfg) -> String {
    format!("streampair.{}/{}", focus.tag(), cfg.name)
}

pub fn run(focus: Focus, tier: Tier, out: &mut Output) {
    let wide = tier == Tier::Thorough;
    // quick: every history of 7 operations (sized for the optimised test profile, ~5-15 s per
    // configuration on 16 cores). thorough: the wire-only focuses reach deeper because B is not
    // exercised; the wall cap is reported (`exhaustive:false`) if a level does not complete.
    let depth = match focus {
        Focus::C01 | Focus::C02 => tier.pick(7, 9),
        Focus::C03 => tier.pick(7, 9),
        Focus::C12 => tier.pick(7, 10),
    };
    let wall = tier.pick(17.0, 190.0);
    for cfg in CONFIGS.iter().copied() {
        let lim = Limits::depth(depth).wall(wall);
        let config = cfg.json().set("wide", wide);
        let collector = Collector::new(1);
        let c2 = collector.clone();
        let mut rep = explore(ENGINE, &family(focus, &cfg), config.clone(), &move || init(cfg, focus, wide, Some(c2.clone())), &lim);
        collector.attach(&mut rep, &config, &move || init(cfg, focus, wide, None));
        out.push(rep);
    }
}

pub fn replay(focus: Focus, cfg: &Json, hist: &[u16]) -> Result<Vec<String>, (Vec<String>, Violation)> {
    let wide = matches!(cfg.get("wide"), Some(Json::Bool(true)));
    let cfg = Cfg::from_json(cfg).ok_or_else(|| (Vec::new(), Violation::new("machinery.replay", "unknown streampair config in replay file")))?;
    mccore::replay_history(&move || init(cfg, focus, wide, None), hist)
}

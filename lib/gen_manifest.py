#!/usr/bin/env python3
"""Regenerates /verif/MANIFEST.json from lib/registry.py and lib/manifest_static.json."""
import json, os, sys
here = os.path.dirname(os.path.abspath(__file__))
sys.path.insert(0, here)
from registry import PROPERTIES
static = json.load(open(os.path.join(here, "manifest_static.json")))
props = [json.loads(l)["id"] for l in open(os.path.join(here, "..", "properties.jsonl"))]
checks = []
for pid in props:
    if pid not in PROPERTIES:
        continue
    s = PROPERTIES[pid]
    engines = sorted({st.get("engine") or st.get("name") for st in s["steps"]})
    checks.append({
        "property_id": pid,
        "quick_cmd": f"./check {pid} --tier quick",
        "thorough_cmd": f"./check {pid} --tier thorough",
        "evidence_file": f"/verif/evidence/{pid}.json",
        "replay_cmd_template": f"./check {pid} --replay {{path}}",
        "engine": "+".join(engines),
        "level_claimed": {"category": "model_checking", "text": s["level_text"], "design_ref": s.get("design_ref", "DESIGN.md §3")},
        "level_note": s["level_note"],
        "technique": s["technique"],
    })
na = [x for x in static.get("not_applicable", []) if x["property_id"] not in PROPERTIES]
listed = {x["property_id"] for x in na}
for pid in props:
    if pid not in PROPERTIES and pid not in listed:
        na.append({"property_id": pid, "reason": "check not built yet in this revision of /verif (see DESIGN.md §8 build order); nothing is claimed"})
serves = {}
for pid in props:
    if pid in PROPERTIES:
        for st in PROPERTIES[pid]["steps"]:
            e = st.get("engine") or st.get("name")
            for base in ("seqmc", "netmc", "txmc", "loommc", "quichemc", "dcmc"):
                if e.startswith(base):
                    serves.setdefault(base, set()).add(pid)
for e in static["engines"]:
    e["serves_properties"] = sorted(serves.get(e["name"], set())) if e["name"] != "mccore" else sorted(PROPERTIES)
m = {
    "version": 1,
    "setup_cmd": "./check --setup",
    "hooks": static["hooks"],
    "engines": static["engines"],
    "checks": checks,
    "notes": static.get("notes", ""),
    "not_applicable": sorted(na, key=lambda x: x["property_id"]),
}
json.dump(m, open(os.path.join(here, "..", "MANIFEST.json"), "w"), indent=1)
print("wrote MANIFEST.json with", len(checks), "checks;", len(na), "not claimed")

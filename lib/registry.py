"""Which engine families decide which property.  One entry per *claimed* property.

step kinds:
  bin      harness crate under engines/<engine> (path-deps on /repo), run as `<bin> run <families> --out f`
  mounted  module tree #[path]-mounted into a repository crate's unit-test build (hooks H1..H4), run with
           `cargo test -p <package> --lib -- <filter>`; the tests write their reports to $VERIF_OUT_DIR
"""

def seq(*families):
    return {"kind": "bin", "engine": "seqmc", "families": list(families)}


PROPERTIES = {
    "C16": {
        "title": "Reassembly buffer and range sets behave exactly like their reference models",
        "steps": [seq("c16.*")],
        "technique": "explicit-state BFS over operation histories of the real structures, compared step by step with plain reference sets",
        "level_text": "Every operation sequence up to the stated depth over a boundary-offset alphabet is executed on the real "
                      "Reassembler / IntervalSet / ack::Ranges / packet::number::Map / SlidingWindow and compared, after every "
                      "step and through every getter, with a BTreeMap/BTreeSet reference model; states are de-duplicated, so the "
                      "bound is on distinct reachable states, not on samples.",
        "level_note": "Small scope: offsets around 0/4096/65536/262144/1MiB/2^62 slot boundaries, 5 lengths, depth 4-5 (quick) / 5-7 (thorough); "
                      "interval/ack/window alphabets 0..8/0..10/16 values, explored to fixpoint. Content compared with a 64-bit position-dependent PRF. "
                      "Trusted: the harness reference models and rustc.",
        "design_ref": "DESIGN.md §3 C16",
        "assumptions": ["small-scope hypothesis over the listed alphabets", "reference models in engines/seqmc/src/c16.rs are correct"],
    },
}

"""Which engine families decide which property.  One entry per *claimed* property.

step kinds:
  bin      harness crate under engines/<engine> (path-deps on /repo), run as `<bin> run <families> --out f`
  mounted  module tree #[path]-mounted into a repository crate's unit-test build (hooks H1..H4), run with
           `cargo test -p <package> --lib -- <filter>`; the tests write their reports to $VERIF_OUT_DIR
"""

def seq(*families):
    return {"kind": "bin", "engine": "seqmc", "families": list(families)}


def net(prop):
    return {"kind": "bin", "engine": "netmc", "families": [prop]}


def tx(name, filt, expect=1, **kw):
    d = {"kind": "mounted", "name": name, "engine": "txmc", "flavour": "verif", "package": "s2n-quic-transport",
         "filter": filt, "expect_reports": expect}
    d.update(kw)
    return d


def loom(name, flavour, package, filt, expect, threads=8, poison=True):
    d = {"kind": "mounted", "name": name, "engine": "loommc", "flavour": flavour, "package": package, "filter": filt,
         "expect_reports": expect, "test_threads": threads}
    if poison:
        d["env"] = {"quick": {"VERIF_LOOMMC_POISON": "all"}, "thorough": {"VERIF_LOOMMC_POISON": "all"}}
    return d


NET_NOTE = ("netmc: real client + real server on the repository's deterministic executor with a harness-owned network; "
            "every schedule with <= k deviations (drop / duplicate / delay-past-next-flight, plus corrupt / truncate with real TLS, "
            "plus blackholes where listed) at every datagram index of every scenario of the families data, live, flow, lifecycle, hs "
            "(k per scenario is listed in the evidence under x_cases); monitors are pure functions over datagrams, clear-text frames "
            "(own RFC 9000 frame parser), events and the application log. ")

PROPERTIES = {
    "C16": {
        "title": "Reassembly buffer and range sets behave exactly like their reference models",
        "steps": [seq("c16.*")],
        "technique": "explicit-state BFS over operation histories of the real structures, compared step by step with plain reference sets",
        "level_text": "Every operation sequence up to the stated depth over a boundary-offset alphabet is executed on the real "
                      "Reassembler / IntervalSet / ack::Ranges / packet::number::Map / SlidingWindow and compared, after every "
                      "step and through every getter, with a BTreeMap/BTreeSet reference model; states are de-duplicated, so the "
                      "bound is on distinct reachable states, not on samples.",
        "level_note": "Small scope: offsets around 0/4096/65536/262144/1MiB/2^62 slot boundaries, 5 lengths, depth 4-5 (quick) / 5-7 (thorough); "
                      "interval/ack/window alphabets 0..8/0..10/16 values, explored to fixpoint. Interval and ACK-range sets are additionally started from 15-20 preset disjoint intervals (limits/capacities 16-20; the structure switches from a linear scan to a binary search at 16 intervals) with every insert/remove of 1-3 values to depth 3. Content compared with a 64-bit position-dependent PRF. "
                      "Trusted: the harness reference models and rustc.",
        "design_ref": "DESIGN.md §3 C16",
        "assumptions": ["small-scope hypothesis over the listed alphabets", "reference models in engines/seqmc/src/c16.rs are correct"],
    },
    "C01": {
        "title": "Stream bytes are delivered exactly once, in order, unaltered",
        "steps": [net("C01"), tx("txmc_streampair_c01", "verif_streampair_c01", expect=3)],
        "technique": "stateless deviation-bounded exploration of real client+server executions (iterative context bounding over network faults) with a content oracle",
        "level_text": NET_NOTE + "Oracle DATA: every application read must return exactly the bytes the peer wrote at those offsets (64-bit position-dependent PRF payload), a clean end of stream only after the peer finished and with exactly its length, no data after an error. A component-level engine (txmc) adds explicit-state search over two real StreamImpl objects joined by a bag of in-flight frames (write/finish/reset/transmit with tiny packet capacities/deliver/duplicate/ack/lose/read/stop_sending/credit updates, three window configurations, depth 7+), with the same oracle on every frame the real SendStream writes and every byte the real ReceiveStream hands out.",
        "level_note": "Bounds: k<=2 deviations on small null-TLS scenarios, k<=1 elsewhere (quick); transfer sizes 1 B..70 KB, 1-3 streams, MTU 1228/1500, CUBIC/BBR, windows default or 1500/3000. Real I/O paths (GSO, sockets) and sizes beyond 70 KB not covered. Trusted: bach executor, harness network, PRF oracle.",
        "design_ref": "DESIGN.md §3 C01",
        "assumptions": ["small-scope hypothesis over deviations/scenarios listed in evidence x_cases", "the testing IO provider behaves like the production event loop"],
    },
    "C02": {
        "title": "Every operation terminates: data gets through or the failure is reported",
        "steps": [net("C02"), tx("txmc_streampair_c02", "verif_streampair_c02", expect=3)],
        "technique": "deviation-bounded exploration incl. finite and infinite blackholes at every datagram index; executor stall detection as lost-wake-up oracle",
        "level_text": NET_NOTE + "Oracle LIVE: L1 after any finite fault prefix (incl. 2 s blackholes of either/both directions at every index) every application task completes successfully and every finished stream reaches EOF at the peer; L2 with a blackhole that never ends (every index, every direction) each endpoint reports the connection closed no later than max(idle, 3*PTO, handshake timer)+2 ms after its last timer-restarting event and no task is left parked at the horizon; L3 an executor stall (task parked, no timer armed) is a violation.",
        "level_note": "'Forever' is a 60-120 s virtual-time horizon; blocking kinds exercised: stream credit, connection credit, stream-count credit (peer and local limits), amplification (certificate chains of 4.4 kB / 8.3 kB that stop the server at exactly 3x until the client's own probes release it - the fault-free run must show that, x_facts counts it - and Retry), congestion; an application that pauses for almost the idle timeout and writes again; txmc streampair.c02 additionally checks RFC 9000 4.5 at the receiver (final size charged against and returned to the connection window on every accepted RESET_STREAM). PTO bound recomputed from the endpoint's own recovery_metrics events (upper bound => no false alarm).",
        "design_ref": "DESIGN.md §3 C02",
        "assumptions": ["virtual-time horizon stands for 'forever'", "fairness of the deterministic executor"],
    },
    "C08": {
        "title": "ACKs name only packets really received; packet numbers always reconstruct",
        "steps": [net("C08"), tx("txmc_ackmgr", "txmc_c08_ackmgr", expect=1), seq("c08.*")],
        "technique": "deviation-bounded exploration with an ACK monitor over clear-text frames (tx ACK ranges vs. rx packet numbers, promptness deadlines)",
        "level_text": NET_NOTE + "Oracle ACK: every range of every ACK frame an endpoint sends is a subset of the packet numbers it decrypted and processed in that space; packet numbers strictly increase per space; every ack-eliciting 1-RTT packet is covered by an ACK sent within max_ack_delay+1 ms, or within 1 ms when it arrived out of order (below an already received ack-eliciting packet, or above a remembered gap); scenarios with max_ack_delay 200/25 ms and 25/200 ms (each endpoint is judged by the value it advertised itself); with no damaged datagram and no key update a 1-RTT decryption failure is a packet number that did not reconstruct (ack.pn_not_reconstructed; bulk one-way transfers with > 100 packets outstanding).",
        "level_note": "Exemptions derived from the record only: closing/closed endpoint; packets at or below the Largest Acknowledged of an own ACK frame that the peer acknowledged (RFC 9000 13.2.4 lets the receiver forget them); windows in which the endpoint itself sent a congestion-controlled packet within one smoothed RTT (its pacer gates all transmissions, 'allowed to send'). Observation (not a finding): s2n-quic paces ACK-only packets too, so after a large RTT sample ACKs can leave later than max_ack_delay.",
        "design_ref": "DESIGN.md §3 C08",
        "assumptions": ["small-scope hypothesis", "promptness only judged outside pacing windows"],
    },
    "C09": {
        "title": "Loss detection is sound and in-flight bookkeeping is exact",
        "steps": [net("C09"), tx("txmc_recovery", "txmc_c09_recovery", expect=3)],
        "technique": "deviation-bounded exploration with a loss monitor over the event stream (RFC 9002 6.1 transcription)",
        "level_text": NET_NOTE + "Oracle LOSS (from packet_sent / ack_range_received / packet_lost / recovery_metrics events): a packet is declared lost only if a later-sent packet was acknowledged and (largest_acked - pn >= 3 or it was sent more than max(9/8*max(srtt, latest_rtt), 1 ms) ago, with the 1 ms clock granularity of s2n-quic's Timestamp::has_elapsed); never twice, never after it was acknowledged, never an unsent number; min_rtt <= latest sample; smoothed_rtt within the sample range.",
        "level_note": "Packet kinds of the handshake-space family: ack-eliciting (100 / 1200 bytes), ACK-only (not in flight) and padded ACK-only (ACK + PADDING: not ack-eliciting but congestion controlled). RTT values are the endpoint's own metrics events (the smaller of the values before/after the ACK that triggered the loss, since the estimator is updated before detection). MTU probes are exempt (own timer). txmc c09.recovery / c09.recovery_hs / c09.recovery_multipath: explicit-state search (depth 6 quick, 7 thorough) over the real recovery::Manager with real Path(s), CUBIC, RttEstimator and PTO state - application space, handshake space with discard, and two paths with RTT 1 s / 10 ms - against an independent RFC 9002 transcription (loss justification per sending path, PTO expiry marks nothing lost, exactly-once resolution, tracked set == unresolved set, per-path bytes_in_flight, RTT sample rules, PTO floor and doubling).",
        "design_ref": "DESIGN.md §3 C09",
        "assumptions": ["small-scope hypothesis", "event stream is faithful (events are emitted by the code under test)"],
    },
    "C11": {
        "title": "No traffic amplification towards unvalidated or unknown peers",
        "steps": [net("C11")],
        "technique": "deviation-bounded exploration of handshakes with an amplification monitor over the datagram log",
        "level_text": NET_NOTE + "Oracle AMP (datagram log + the server's processed packets): until the server has processed a Handshake packet from the client (or an Initial carrying a token one of its own Retry packets to that address contained), the server never starts a datagram once bytes sent >= 3 x bytes delivered to it from that address (every datagram counted, corrupted ones included); every client datagram carrying an Initial packet is >= 1200 bytes.",
        "level_note": "Handshake loss/duplication/reordering/corruption patterns with k<=1 (real TLS) and k<=2 (null TLS), early application close during the handshake included. The same rule applies to every further client address (rebinding / migration) until the server processed a PATH_RESPONSE from it; large certificate chains make the server reach the limit in the fault-free run; its PTO count must not grow while it stands at the limit with no client datagram arriving (amp.pto_while_blocked). A strict violation that a saturating allowance (overshoot forgotten) still permits is the known finding, reported under its own clauses. STRAY family: stateless reset strictly smaller than its trigger, Version Negotiation only for datagrams >= 1200 bytes and never in reply to Version Negotiation.",
        "design_ref": "DESIGN.md §3 C11",
        "assumptions": ["small-scope hypothesis", "test certificate chain size only"],
    },
    "C12": {
        "title": "What an endpoint sends on a stream and at close is self-consistent",
        "steps": [net("C12"), tx("txmc_streampair_c12", "verif_streampair_c12", expect=3)],
        "technique": "deviation-bounded exploration with a per-stream consistency monitor over all transmitted clear-text frames and close datagrams",
        "level_text": NET_NOTE + "Oracle TXCONS: per endpoint and stream, overlapping (re)transmissions carry identical bytes; no data at/after an announced final size; the final size never changes and is never below data already sent; no STREAM/STREAM_DATA_BLOCKED after RESET_STREAM; stream ids of each type are handed out in increasing order; after the first CONNECTION_CLOSE only byte-identical copies of that datagram leave, at most one per datagram that arrived.",
        "level_note": "Application scripts: finish/reset/drop/close placed at every step of a multi-stream transfer, peer STOP_SENDING/RESET/close, x loss/dup/reorder at every index. One known finding (empty open-notify STREAM frame retransmitted after RESET_STREAM) is listed in known_findings.json and reported as KNOWN-FINDING.",
        "design_ref": "DESIGN.md §3 C12",
        "assumptions": ["small-scope hypothesis"],
    },
    "C13": {
        "title": "Connection IDs are issued, routed and retired consistently",
        "steps": [tx("txmc_cid", "verif_txmc_cid", expect=5), net("C13")],
        "technique": "explicit-state BFS over the real LocalIdRegistry / PeerIdRegistry / ConnectionIdMapper joined by a bag of in-flight frames",
        "level_text": "The real issuer (LocalIdRegistry in a real ConnectionIdMapper that also holds a second connection) and the real consumer (PeerIdRegistry) are driven through every operation sequence up to depth 10 (quick) / 13 (thorough) over 13 operations (register with/without expiry, set peer limit, transmit, deliver/lose/ack NEW_CONNECTION_ID and RETIRE_CONNECTION_ID frames as encoded bytes through the real codec, consume id for migration, timer expiry) from 48 setup roots, de-duplicated on the registries' Debug rendering; invariants after every step: unretired ids <= peer limit (RFC 9000 5.1.1 MAY for ids being retired by the same frame), consecutive sequence numbers, pairwise distinct ids and reset tokens, retire_prior_to <= sequence number, routing of every id the peer may still use to the issuing connection, peer retires only issued ids and never the destination id of the carrying packet. A second family feeds adversarial NEW_CONNECTION_ID sequences to the peer registry at every reachable state. netmc migrate family (real TLS): client address rebinding, loss and reordering at every datagram index after the handshake, peer limits 2/3/4, and connection-id expiry at the stock 60 s minimum lifetime over a 160 s keep-alive run; monitor CID on the clear-text frames: consecutive sequence numbers, distinct ids and reset tokens, retire_prior_to <= sequence number, unretired ids <= peer limit, only issued ids retired, RETIRE_CONNECTION_ID never in a packet addressed with the retired id (short-header destination ids are readable), no genuine datagram answered with a stateless reset or dropped as unroutable while the connection lives; plus the DATA and completion oracles.",
        "level_note": "Two further txmc families put the real server-role path::Manager with its real PeerIdRegistry in the loop (datagrams from 2-3 addresses, path validation, NEW_CONNECTION_ID with retire_prior_to unchanged / +1 / = seq, transmit, loss/ack of RETIRE frames, validation timer; depth 8 quick, 9-10 thorough): RETIRE never in a packet addressed with the retired id, the active path never uses a retired id while a replacement exists, only issued ids retired, honest input never errors. One listed known finding (fallback to the last validated path after a failed validation resumes a retired id). In c13.cid the path::Manager / ApplicationSpace glue is transcribed (sources named in engines/txmc/cid.rs); constant id lifetimes; the issuer is never starved for >= 10 s. Routing clause covers the RFC MUST only (until the issuer has put a Retire Prior To above the id on the wire). Mounted into the crate's unit-test build by hook H1.",
        "design_ref": "DESIGN.md §3 C13",
        "assumptions": ["small-scope hypothesis", "transcribed glue matches path::Manager", "constant connection-id lifetimes"],
    },
    "C03": {
        "title": "A sender never exceeds the flow-control and stream limits its peer granted",
        "steps": [net("C03"), tx("txmc_streampair_c03", "verif_streampair_c03", expect=3)],
        "technique": "deviation-bounded exploration with a flow-control monitor over clear-text frames + explicit-state search of a real StreamImpl pair",
        "level_text": NET_NOTE + "Oracle FC: per endpoint, limits start from the transport parameters it received and grow only with MAX_DATA / MAX_STREAM_DATA / MAX_STREAMS frames it processed; every STREAM frame end offset <= stream limit, sum of stream lengths (RESET final sizes included) <= connection limit, every locally initiated stream id referenced is below the stream-count limit, RESET_STREAM final size <= stream limit. Windows 1..4096 incl. stream != connection window, write > window then reset, stream-count limits 1 and 2, lost/duplicated/reordered MAX_* frames." + """ A component-level engine (txmc) adds explicit-state search over two real StreamImpl objects joined by a bag of in-flight frames with stale / equal / +1 / +5 limit updates, three window configurations, depth 7+.""",
        "level_note": "The genuine defect found by both engines (RESET_STREAM final size above the stream limit) was repaired by a fix: commit and is recorded as fixed in known_findings.json; the check reports it again if it returns. initial_max_data is taken from the scenario configuration (the event does not expose it).",
        "design_ref": "DESIGN.md §3 C03",
        "assumptions": ["small-scope hypothesis"],
    },
    "C04": {
        "title": "Peer protocol violations are rejected with the right error; buffering is bounded",
        "steps": [net("C04"), tx("txmc_advmgr", "verif_advmgr_c04", expect=2)],
        "technique": "explicit-state search of the real stream manager under an adversarial frame catalogue + e2e credit monitor",
        "level_text": "txmc: the real AbstractStreamManager<StreamImpl> (server and client role) is driven through every sequence (depth 8 quick, deeper thorough) of honest operations and adversarial frames - data beyond the stream / connection limit, stream ids at and beyond the limit for both peer-initiated types, FIN then FIN at +-1, data beyond a known final size, RESET_STREAM with a final size different from FIN / below received / above the limit, STREAM / RESET_STREAM / STREAM_DATA_BLOCKED on send-only streams, MAX_STREAM_DATA / STOP_SENDING on receive-only streams (live and already closed), frames for unopened local streams, MAX_STREAMS > 2^60 - each must yield a transport error from the set the RFC sentence allows (prescribed code or PROTOCOL_VIOLATION per RFC 9000 11), no offending byte may reach the application, honest operations never error. " + NET_NOTE + "Oracle CREDIT on every execution: MAX_STREAM_DATA <= bytes the application consumed on the stream + configured stream window, MAX_DATA <= total consumed + connection window, MAX_STREAMS <= peer streams opened + configured limit.",
        "level_note": "Two genuine defects (frames for a non-existent stream half accepted) were repaired by a fix: commit; one remains a listed known finding (RESET_STREAM with a final size below data already received is accepted; RFC 9000 4.5 SHOULD, an in-tree test sends exactly such a frame). The netmc adv family (null TLS, so that every space is writable) turns an otherwise honest peer's n-th packet of a space into one offending frame: every frame type the RFC 9000 12.4 table forbids in Initial/Handshake packets, HANDSHAKE_DONE / NEW_TOKEN to a server, ACK of an unsent packet, MAX_STREAMS > 2^60, stream offset beyond 2^62-1, data beyond the connection limit on a fresh stream, stream id beyond the limit, frames for unopened local streams, malformed / excessive NEW_CONNECTION_ID, RETIRE_CONNECTION_ID of an unissued id, CRYPTO beyond the buffer, unknown frame type - both roles as victim, several injection points; the victim must close with a transport error from the allowed set and deliver no offending byte.",
        "design_ref": "DESIGN.md §3 C04",
        "assumptions": ["small-scope hypothesis", "catalogue of violations in engines/txmc/stream_advmgr.rs"],
    },
    "C10": {
        "title": "Congestion control keeps its window and sending within RFC 9002 bounds",
        "steps": [seq("c10.*"), net("C10")],
        "technique": "deviation-bounded exploration with a send-gate monitor over the event stream (independent bytes-in-flight bookkeeping vs. the reported window)",
        "level_text": NET_NOTE + "Oracle SENDGATE: the monitor keeps its own bytes-in-flight sum from packet_sent / ack_range_received / packet_lost / key_space_discarded events; a congestion-controlled packet in normal transmission mode may only be sent while that sum is below the congestion window last reported, except one packet after a congestion event (RFC 9002 7.3.2); probes (loss-recovery mode) are exempt, MTU probes are not. CUBIC: two decreases of the reported congestion window violate the once-per-recovery-period rule when every packet declared lost at the second had been sent at or before the first (cc.second_reduction_in_recovery; decreases to the minimum window, next to an MTU change or after a migration are not judged). CUBIC and BBR scenarios, losses at every index.",
        "level_note": "seqmc c10.cubic / c10.bbr: explicit-state BFS (depth 5 quick, 6-7 thorough) over send/ack/loss/ECN/MTU/discard/idle events on the real controllers at datagram sizes 1200/1500/9000 with the window-floor, overflow, in-flight, no-increase-on-signal, one-reduction-per-round-trip, persistent-congestion-minimum and no-growth-while-application-limited clauses. c10.persistent: the persistent-congestion period calculator against RFC 9002 7.6 on 2.06 M cases (6 packets on a 4-point time grid, every lost subset, every ack-eliciting assignment, first RTT sample absent / at every grid instant). Congestion-controlled = carries an ack-eliciting frame (s2n-quic's definition).",
        "design_ref": "DESIGN.md §3 C10",
        "assumptions": ["small-scope hypothesis", "event stream is faithful"],
    },
    "C06": {
        "title": "Only authentic packets have effect, and each at most once",
        "steps": [seq("c06.*"), net("C06")],
        "technique": "bounded-exhaustive tampering of real protected packets (every bit / truncation / splice) + differential deviation-bounded exploration with forged datagrams injected next to every genuine datagram",
        "level_text": "seqmc c06.aead: for all three cipher suites and Initial keys, real encrypt+protect output is byte-compared with an independent RFC 9001 5.3/5.4 transcription on bare aws-lc primitives, and every single-bit flip, every truncation, every two-packet splice and garbage of the same size must be rejected by the real unprotect+decrypt; c06.nonce: iv xor pn is pairwise distinct over 0..5000, around 2^32 and up to 2^62-1 and matches RFC 9001 Appendix A. netmc forge family (real TLS): for every datagram index of an established transfer, every single bit of the first 32 bytes and three masks (^01/^80/^ff) of every further byte, all truncations, splices with the previous datagram and garbage datagrams claiming the genuine source address are delivered just before the genuine datagram; the run must be observationally identical (application log, the payload-bearing packets processed and acknowledged per space, ECN counts, close events) to the same schedule without the forgeries. Replays: every datagram re-delivered 1 ms / 60 ms / 400 ms later - no packet number reaches frame processing twice, ACKs name only processed packets (ACK monitor), data intact.",
        "level_note": "Differential oracle needs no expected values. Stateless resets with the peer's genuine token are excluded by construction (forgeries are mutations/garbage). Cipher suite end-to-end is the one the TLS provider negotiates (component part covers all three). Forgeries are always the last deviation of a schedule (the stateless resets / version negotiations some of them provoke shift later indices); both tiers also forge after every loss / duplicate / delay (pairs) and in a multi-stream BBR transfer, and re-deliver the datagrams of a 1.5 MB upload 100 ms later (replay older than the duplicate window). A violating execution whose re-run has a different trace hash is accepted when every violated clause is reproduced (per-run TLS keys).",
        "design_ref": "DESIGN.md §3 C06",
        "assumptions": ["small-scope hypothesis", "aws-lc primitives are correct (trusted base of the independent transcription)"],
    },
    "C14": {
        "title": "Transport parameters are validated and applied exactly as RFC 9000 specifies",
        "steps": [seq("c14.*"), net("C14")],
        "technique": "bounded-exhaustive enumeration of raw transport-parameter blocks against an independent RFC 9000 18.2/7.4 acceptance table",
        "level_text": "29 M raw blocks (both tiers) built byte by byte (never with the repository's encoder): every parameter at and around each bound in every legal varint size, malformed forms, framing damage, all ordered pairs (=> every duplicate) and triples of 623 atoms, unknown/GREASE ids, server-only parameters in client blocks, both roles; oracle: real decode accepts <=> the table accepts, every decoded field equals the declared value or the RFC default, and the values derived for the connection (flow-control limits, stream limits, ACK settings, datagram limits, idle timeout) equal the declared ones.",
        "level_note": "Component level (s2n-quic-core public API) plus the netmc tpe2e family: a wrapper around the null TLS endpoint edits the transport-parameter block one side sends (27 items: each bound at its last valid and first invalid value, duplicates, server-only parameters sent by a client, initial_source_connection_id / original_destination_connection_id mismatching or missing, retry_source_connection_id without Retry, unknown/GREASE ids, and declared-limit edits) - the receiving endpoint must close with TRANSPORT_PARAMETER_ERROR (or a generic code) exactly for the invalid blocks, complete the transfer for the valid ones, and obey the declared limits (FC monitor). One defect was repaired (max_ack_delay 2^14, fix: commit); three deviations are listed known findings (non-minimal ack_delay_exponent rejected, short retry_source_connection_id rejected, preferred_address with empty connection id accepted).",
        "design_ref": "DESIGN.md §3 C14",
        "assumptions": ["the acceptance table in engines/seqmc/src/c14.rs transcribes RFC 9000 correctly"],
    },
    "C15": {
        "title": "Packet-protection keys respect AEAD limits and survive key updates",
        "steps": [seq("c15.*"), net("C15")],
        "technique": "explicit-state BFS over two real KeySets joined by a bag of in-flight packets + deviation-bounded e2e exploration across real key updates (hook H5)",
        "level_text": "seqmc c15.keyset: two real KeySet<K> (harness key whose ciphertext names its generation; confidentiality limit 4/3, integrity limit 3) exchange real encoded short packets through a bag with arbitrary reordering, loss and forgeries, timers and PTO ticks, depth 10 quick / 14 thorough; oracle: per generation #encrypts <= limit and the limit error instead of exceeding, AEAD_LIMIT_REACHED exactly at the integrity limit, generation non-decreasing in packet number per sender, genuine packets of generations c-1 (within the retention window), c, c+1 decrypt, forged packets never rotate the phase. netmc keyup family: real connections (s2n-tls and null TLS) forced by hook H5 to update keys every 40-60 packets, every datagram dropped / delayed / duplicated once; oracle: data intact, completion, key generations advance by exactly 1, no genuine packet is ever dropped as undecryptable, no transport error.",
        "level_note": "The defect found by both engines (delayed old-phase packet rotated the keys back) was repaired by a fix: commit. Hook H5 only changes the key update window through an environment variable in cfg(aws_s2n_quic_verif) builds; N is kept above what one PTO can send so that the artificial limit cannot create states real limits cannot reach.",
        "design_ref": "DESIGN.md §3 C15",
        "assumptions": ["small-scope hypothesis", "harness key implements the OneRttKey contract faithfully"],
    },
    "C05": {
        "title": "Wire codecs are total, round-trip exactly and follow the RFC 9000 layout",
        "steps": [seq("c05.*", "c08.pnum")],
        "technique": "bounded-exhaustive input enumeration (all short byte strings, boundary-alphabet strings, boundary-value field tuples, all 1-/2-byte mutations of valid messages) against an independent RFC 9000 parser",
        "level_text": "2.6e8 (quick) / 2.7e9 (thorough) inputs: every byte string of length <= 3 and every string of length <= 6/7 over {00,01,3f,40,7f,80,bf,c0,ff} after each first byte, for frame sequences, packet headers (all 256 first bytes, versions 0/1), transport-parameter blocks, varints and s2n-codec primitives; 8 007 frame field tuples, 3 039 generated datagrams and 6 726 parameter sets over boundary values encoded by the real encoders; every single-byte substitution (all positions x 256) and (thorough) every 2-byte substitution of those messages. Oracles: no panic / out-of-bounds (debug assertions and overflow checks on), every successful frame decode consumes >= 1 byte (no endless loop), decode(encode(x)) == x, encoding_size == bytes written, an independently written RFC 9000 16-19 / RFC 8999 / RFC 9221 parser returns the same value-or-error (strict where the RFC mandates an error at parse time, lenient-with-equal-value where it leaves freedom), varints in shortest form.",
        "level_note": "Inputs longer than the bounds that are not generated messages or their mutations are not covered; strict agreement only for versions 0/1. Two listed known findings (long-header Length field not shortest form; ack_delay_exponent decoded as one byte). Packet-number truncation is C08, acceptance rules C14.",
        "design_ref": "DESIGN.md §3 C05",
        "assumptions": ["the reference parser in engines/seqmc/src/c05.rs transcribes the RFCs correctly"],
    },
    "C18": {
        "title": "dc: packets round-trip and only authenticated packets are acted upon",
        "steps": [seq("c18.*"), {"kind": "bin", "engine": "dcmc", "families": ["C18"]}],
        "technique": "bounded-exhaustive field-tuple / byte-string / tamper enumeration on the real dc packet codecs and crypto + explicit-state search of the real path-secret Map under forged control packets",
        "level_text": "c18.roundtrip: 3.2e5 field tuples over varint edges, payload/header sizes and all flag combinations for stream / datagram / control / UnknownPathSecret / StaleKey / ReplayDetected packets (plus probes and retransmissions), both cipher suites with the real key schedule and aws-lc keys: decode(encode(x)) == x after decrypt, announced length == consumed length, trailing bytes untouched. c18.totality: 1.7e7 (quick) / 1.7e8 (thorough) byte strings and substitutions into valid packets on 8 decoder entry points: no panic. c18.tamper: every byte x 9 masks, truncations, byte pairs, swaps, splices and foreign-secret sealing of every valid packet: rejected with no clear text handed out, or nothing the receiver acts on differs. c18.map: the real Map (entries installed through the production dc handshake callbacks) driven to depth 4 (quick) / 6 (thorough) over ~620 operations incl. every tampered byte position of genuine control packets: forged packets leave contains / len / next key id / handshake-request flag and 17 event counters unchanged, genuine ones have exactly their documented effect.",
        "level_note": "One listed known finding (packet-space flag of retransmitted stream packets is unauthenticated). Documented exception: an UnknownPathSecret's queue id is outside the stateless-reset token by design (the map acts on the credential id only). Not covered: stream receiver state, socket router, uds packets, cleaner cycle. dcmc garble family (real dc stream pairs over the simulated UDP network): for every datagram index of three (quick) / eight (thorough) transfers - stream packets and control packets of both directions - about 250 unauthentic variants (three masks on each of the first 48 bytes, variable-length integer bytes forced to large values, every tag byte flipped, truncated by one byte, zeroed tag) are delivered just ahead of the genuine datagram; the transfer must complete exactly as without them (PRF content, totals, EOF, no stall), so a stream-level decision taken before authentication (duplicate filter, flow-control error, reset) shows as a failed or stalled stream.",
        "design_ref": "DESIGN.md §3 C18",
        "assumptions": ["small-scope hypothesis", "aws-lc primitives are correct"],
    },
    "C19": {
        "title": "dc: a key ID is accepted at most once and issued at most once",
        "steps": [seq("c19.*"), loom("loommc_dc", "loomx", "s2n-quic-dc", "verif_loommc::c19_", 7, poison=False)],
        "technique": "explicit-state BFS of the real replay window and key-id issuer against exact set models",
        "level_text": "c19.replay: every sequence of length <= 5 (quick) / 7 (thorough) over 21 key ids (0,1,2, window edges 894..898 and 1790..1794, around 2^32, MAX-2..MAX) on the real receiver::State, compared step by step (result kind and minimum_unseen_key_id) with an exact model: accept <=> unseen and id != MAX and (id > max or max - id < 896). c19.sender: ids issued through the public sealing paths under sequences of issue / genuine signed StaleKey(v) notifications: pairwise distinct, strictly increasing, distinct nonces and ciphertexts.",
        "level_note": "Concurrent part (loommc, hook H4, loom 0.7 with preemption bound 2 quick / 3 thorough): 2-3 threads calling the real receiver::State::post_authentication (same id, replay after a backwards jump, window edge, far jump) - each id Ok at most once and the result multiset equals that of some sequential order against the set model; next_key_id racing update_for_stale_key - no id issued twice. Trusted: the set model in engines/seqmc/src/c19.rs.",
        "design_ref": "DESIGN.md §3 C19",
        "assumptions": ["small-scope hypothesis"],
    },
    "C17": {
        "title": "Lock-free queues and wakers lose nothing under any thread interleaving",
        "steps": [loom("loommc_core", "loomcore", "s2n-quic-core", "verif_loommc::c17_", 24),
                  loom("loommc_wakeup", "loomx", "s2n-quic-transport", "verif_loommc::c17_wq_", 3, threads=4, poison=False),
                  seq("c17.*")],
        "technique": "controlled-scheduler exploration (loom, bounded DPOR over the C11 model) of the real spsc / worker / atomic_waker / cursor / wakeup_queue code + explicit-state search of the real socket::ring",
        "level_text": "loommc: 27 scenarios on the real code, every interleaving and every value the C11 model lets a load observe up to preemption bound 2 (quick) / 3 (thorough), each in its own child process: spsc capacity 2 FIFO with a shadow-cell array (a missing release/acquire edge is a loom causality violation), close/drop of either side after 0/1/2 pushes while the peer is parked, both sides dropped concurrently with items inside (exactly-once delivery-or-drop counted), use-after-free detection with a poisoning allocator; worker submit vs park, last sender dropped, cloned senders; atomic_waker poll_close vs drop, wake vs register; Cursor producer/consumer pairs over constructed loom atomics composed with atomic_waker exactly as socket::ring composes them; wakeup_queue two handles vs the polling endpoint and re-arming. Lost wake-ups are loom deadlocks. seqmc c17.ring: the real socket::ring Producer/Consumer under every interleaving of whole API calls (entries 2/4/8, to fixpoint): the consumer sees exactly the producer's messages in order, across the primary/secondary wrap.",
        "level_note": "Two genuine defects were repaired by fix: commits (spsc close use-after-free; worker::Sender::clone not counted). loom explores a sound subset of C11 for the listed scenario sizes; socket::ring cannot run under loom (atomics conjured from zeroed memory), its park/wake composition is covered through a 6-line transcription; the cursor u32 wrap is not reached. A capped scenario reports exhaustive:false and is never a verdict.",
        "design_ref": "DESIGN.md §3 C17",
        "assumptions": ["loom's model of C11", "scenario sizes: capacity 2, 2-3 batches, 2-3 threads"],
    },
    "C07": {
        "title": "Interoperates with an independent RFC 9000/9001 implementation",
        "steps": [{"kind": "bin", "engine": "quichemc", "families": ["C07"]}],
        "technique": "deviation-bounded exploration of real s2n-quic <-> quiche 0.29 connections on one virtual clock",
        "level_text": "quiche (vendored crate, BoringSSL) runs as the peer inside the same deterministic executor through the testing Socket; its wall clock is bound to virtual time by defining clock_gettime in the harness binary and its randomness by wrapping RAND_bytes. Scenario grid (quick: 3-wise covering subset of 33, thorough: all 176): role {s2n client, s2n server} x s2n windows {20 B, 1 KB, default} x quiche windows x stream limits {1, 3} x datagram size {1200, 1350} x transfer {14 B, 5 KB, 40 KB both ways}; every datagram dropped / duplicated / delayed once (k <= 2 on the small transfers). Oracle: handshake completes on both sides, bytes read equal the PRF payload written by the other side at every read and in total, no transport error on either side, no idle timeout before the script's own close, completion before the horizon.",
        "level_note": "One independent implementation, one virtual clock; with 20-byte windows the large transfers are cut to 1000 B. Reproducibility self-check on what the applications observed (TLS signature lengths vary by 2 bytes).",
        "design_ref": "DESIGN.md §3 C07",
        "assumptions": ["quiche 0.29.3 is a conforming RFC 9000/9001 implementation", "small-scope hypothesis"],
    },
    "C20": {
        "title": "dc: streams deliver bytes exactly, or fail promptly with an error",
        "steps": [{"kind": "bin", "engine": "dcmc", "families": ["C20"]}, loom("loommc_dcflow", "loomx", "s2n-quic-dc", "verif_loommc::c20_", 3, poison=False)],
        "technique": "deviation-bounded exploration of real s2n-quic-dc client/server stream pairs over a harness-owned simulated UDP network and over a harness-owned in-memory TCP connection (bach, virtual time): every fault per datagram index / every environment answer per socket call and per wire byte offset up to k deviations",
        "level_text": "A real stream::testing::{Client, Server} pair runs over bach's simulated UDP; the harness owns the network through its own queue allocator and takes one decision per datagram index (deliver / drop / duplicate 100 us later / delay 3x; blackhole from index i = peer vanished; forget = server map drop_state at index i). Iterative deviation bounding: k <= 2 where the fault-free run has <= 40 (quick) / 80 (thorough) datagrams, k <= 1 otherwise. Scenario grid: 6 operation orders (write-shutdown-read, concurrent read/write, shutdown before the peer finished reading, drop writer / reader mid-stream, write_all_from_fin) x request/response sizes {1, 1000, 9000, 40000} x read buffers {1, 100, 64 KiB} x MTU {1250, 1500, 9000, 16000, 16384, 32000}. Oracle: PRF content at every read, never more than the peer wrote, clean EOF only at the total where the peer's write half ended, nothing after EOF or an error, under finite faults both directions complete, after blackhole / forget everything resolves with an error within the idle timeout + 2 s, no task pending at the 100 s virtual horizon, no stall, no panic.",
        "level_note": "Thread interleavings of the application task and the send worker on the flow-credit hand-off (stream::send::flow::non_blocking::State: release / release_max racing a blocked acquire, two releases against two requests) are explored with loom (hook H7 twins the file's atomics and replaces atomic_waker by a loom-mutex shim with the same contract; preemption bound 2 quick / 3 thorough): the acquire future completes in every interleaving (a lost wake-up is a loom deadlock), credits are contiguous and within what was released. UDP: as described; the vanish family also explores every pair (drop at i, blackhole or forget at j > i). TCP (family tcp): the real endpoint::open_stream / accept_stream / Reader / Writer run over a harness-owned in-memory connection (SimTcp implements the crate's Socket and Application traits with Protocol::Tcp, no hook in /repo); deviations per socket call (1 byte / half / all-but-one short read or partial write, Pending once, close, reset, forget the secret) and per wire byte offset of either direction (segment boundary, EOF cut, RST cut: every offset of the small transfers, every dc record boundary +-2 and the 64 KiB ring wrap of the larger ones), connection buffers from 100 bytes to 1 MiB, sizes up to 150 000 bytes (receive ring wraps). Not covered on TCP: the tokio acceptor task and socket glue (replaced by the harness's accept loop; a probe with real loopback sockets found that the acceptor rejects a first record above 10 000 bytes that arrives in pieces - outside what the explorer reaches, reported in DESIGN.md 9.5), TLS-over-TCP streams, a TCP peer that vanishes silently (no keepalive is configured: by design nothing reports it). One known finding on TCP (blocked FIN record dropped after 1 s). One genuine defect found through this engine on UDP (BBR minimum window overflow for MTU >= 16384) was repaired by a fix: commit. Allowance: when the client drops its read half with unread data the stream is reset in both directions (like TCP close with unread data).",
        "design_ref": "DESIGN.md §3 C20",
        "assumptions": ["small-scope hypothesis", "bach's simulated UDP and the harness's in-memory TCP connection stand for the production sockets"],
    },
}
